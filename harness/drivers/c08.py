"""C08 -- the type lattice obeys its laws; no answer depends on the subtype caches.

Specifications: spec/Lattice.tla (term universe + the laws as invariants over relation tables
extracted from the implementation + a reference relation for the nominal core) and
spec/SubtypeCache.tla (mypy/typestate.py's subtype caches as a state machine).

Flow of one run
  1. TLC (Gen_Lattice_*.cfg) emits the universe of type terms and the class declarations.
  2. The terms are printed as annotations into a module which a REAL mypy build analyses (real
     typeshed); the Type objects are taken from the symbol table.  thorough: seeded random
     depth-2 terms are added.
  3. The tables Sub / PSub / Same / Join / Meet / Simplify are computed with the real
     is_subtype, is_proper_subtype, is_same_type, join_types, meet_types, make_simplified_union
     and written as literal TLA+ into a generated module; TLC checks the laws on them
     (-continue: every violated law instance is listed).
  4. Every violation TLC lists is re-confirmed on a FRESH build with the real functions and
     delta-minimised over the term structure (sub-term hoisting, atom -> A); the minimal failing
     input is the finding's key.
  5. The same build provides Instance pairs for the cache model: truth / direct sub-queries /
     recording behaviour of every (subtype kind, pair) are extracted with fresh caches, TLC checks
     SubtypeCache.tla on them, emits query / reset histories, and the histories are replayed on
     the real type_state with the cache contents and every answer compared after each step.
"""
from __future__ import annotations

import itertools
import json
import os
import random
import re
import shutil
import sys
import time
from typing import Any, Callable, Iterable

from harness.common import (MachineryError, REPO, SPEC, Verdict, coverage_summary, parse_args,
                            sany, scratch, tla_value, tlc)

PID = "C08"

# =========================================================================== terms -> Python source
ATOM_SRC = {
    "None": "None", "Never": "Never", "Any": "Any", "PGA": "PG[A]",
    "ColR": "Literal[Col.R]", "ColG": "Literal[Col.G]",
    "Lit1": "Literal[1]", "Lit2": "Literal[2]", "LitA": "Literal['a']", "LitTrue": "Literal[True]",
    "type": "type", "TypeT": "Type[T]", "TypeTB": "Type[TB]", "Tuple0": "Tuple[()]",
    "CallAny": "Callable[..., A]", "CallT": "Callable[[T], T]",
}
OP_SRC = {
    "Inv": "Inv[%s]", "Co": "Co[%s]", "Contra": "Contra[%s]", "VarTuple": "Tuple[%s, ...]",
    "Opt": "Optional[%s]", "Seq": "Sequence[%s]", "PG": "PG[%s]", "PContra": "PContra[%s]", "TypeOf": "Type[%s]",
    "Tuple1": "Tuple[%s]", "Tuple2": "Tuple[%s, %s]", "Tuple3": "Tuple[%s, %s, %s]", "Tuple4": "Tuple[%s, %s, %s, %s]",
    "TuplePre": "Tuple[%s, Unpack[Tuple[%s, ...]]]",
    "FnPos": "Callable[[%s], %s]", "FnNamed": "Callable[[Arg(%s, 'x')], %s]",
    "FnOpt": "Callable[[DefaultArg(%s)], %s]", "FnOptNamed": "Callable[[DefaultArg(%s, 'x')], %s]",
    "FnStar": "Callable[[VarArg(%s)], %s]", "FnKw": "Callable[[NamedArg(%s, 'x')], %s]",
    "FnKwOpt": "Callable[[DefaultNamedArg(%s, 'x')], %s]", "FnStar2": "Callable[[KwArg(%s)], %s]",
    "Fn0": "Callable[[], %s]", "Fn2": "Callable[[%s, %s], %s]",
    "Fn2Named": "Callable[[Arg(%s, 'x'), Arg(%s, 'y')], %s]",
}
# names the fixed part of the generated module defines (everything a term may mention)
PLAIN_ATOMS = {"A", "B", "C", "D", "E", "object", "int", "str", "float", "bool", "P", "ImplA", "ImplB", "CoB",
               "Col", "TD1", "TD2", "NT", "T", "TB", "TV", "Rec", "Rec2", "PRec", "ImplRec"}

PLAIN_ATOMS |= {"Meta", "OtherMeta", "SubMeta", "WM", "WMSub", "WO"}
# atoms that cannot be written as an annotation: their type is the type of a NAME the fixed part of
# the module declares (overloaded functions; class objects, i.e. the callable type of `A` itself).
# render() gives "@name"; World.build takes the type from the module's symbol table.
DECL_ATOMS = {"Ov1": "ov1", "Ov2": "ov2", "Ov3": "ov3", "Ov4": "ov4", "Ov5": "ov5",
              "ObjA": "obj_A", "ObjB": "obj_B", "ObjWM": "obj_WM", "ObjWO": "obj_WO"}

Term = dict  # {"op": str, "args": [Term, ...]}


def atom(a: str) -> Term:
    return {"op": a, "args": []}


VT_PREFIX = {"VT0": 0, "VT1": 1, "VT2": 2}   # variadic tuple: prefix items, the unpacked item, suffix items


def _variadic(op: str, parts: list[str]) -> str:
    p = min(VT_PREFIX[op], len(parts) - 1)     # (minimisation may have hoisted items away)
    return "Tuple[%s]" % ", ".join(parts[:p] + ["Unpack[Tuple[%s, ...]]" % parts[p]] + parts[p + 1:])


def render(t: Term) -> str:
    op, args = t["op"], t["args"]
    if args and op in VT_PREFIX:
        return _variadic(op, [render(a) for a in args])
    if not args:
        if op in DECL_ATOMS:
            return "@" + DECL_ATOMS[op]
        if op in ATOM_SRC:
            return ATOM_SRC[op]
        if op in PLAIN_ATOMS:
            return op
        raise MachineryError("unknown atom %r" % op)
    if op == "Union":
        return "Union[%s]" % ", ".join(render(a) for a in args)
    if op not in OP_SRC:
        raise MachineryError("unknown constructor %r" % op)
    return OP_SRC[op] % tuple(render(a) for a in args)


def tkey(t: Term) -> str:
    return json.dumps(t, sort_keys=True)


def tsize(t: Term) -> int:
    return 1 + sum(tsize(a) for a in t["args"])


HEADER = '''\
from typing import (Any, Callable, Dict, Generic, List, Literal, NoReturn, Optional, Protocol, Tuple, Type,
                    TypeVar, Union, Sequence, NamedTuple, Final, overload)
from typing_extensions import TypedDict, Never, Unpack
from mypy_extensions import Arg, DefaultArg, NamedArg, DefaultNamedArg, VarArg, KwArg
import enum

T = TypeVar("T")
T_co = TypeVar("T_co", covariant=True)
T_contra = TypeVar("T_contra", contravariant=True)
TB = TypeVar("TB", bound="A")
TV = TypeVar("TV", int, str)

%(decls)s

class Inv(Generic[T]):
    x: T
class Co(Generic[T_co]):
    def get(self) -> T_co: raise NotImplementedError
class Contra(Generic[T_contra]):
    def put(self, x: T_contra) -> None: ...
class CoB(Co[B]): ...

class P(Protocol):
    def meth(self) -> A: ...
class ImplA:
    def meth(self) -> A: raise NotImplementedError
class ImplB:
    def meth(self) -> B: raise NotImplementedError
class PG(Protocol[T_co]):
    def get(self) -> T_co: ...
class PContra(Protocol[T_contra]):
    def put(self, x: T_contra) -> None: ...
class P2(Protocol):
    def m(self, x: int) -> int: ...
class Impl2:
    def m(self, y: int) -> int: raise NotImplementedError

class Col(enum.Enum):
    R = 1
    G = 2

class TD1(TypedDict):
    x: A
class TD2(TD1):
    y: int

class NT(NamedTuple):
    a: A
    b: int

# metaclasses: instances of Meta / OtherMeta / SubMeta / type against Type[WM], Type[WO], Type[A] ...
class Meta(type): ...
class OtherMeta(type): ...
class SubMeta(Meta): ...
class WM(metaclass=Meta): ...
class WMSub(WM): ...
class WO(metaclass=OtherMeta): ...
# class objects (the callable type of the class itself; a plain `obj_A = A` would declare an alias)
obj_A = (A,)[0]
obj_B = (B,)[0]
obj_WM = (WM,)[0]
obj_WO = (WO,)[0]

# overloaded callables (parameter named x like the Arg(., 'x') callables of the universe), Any-free:
# items related by subtyping to each other and to plain callables, 2-3 items, same and different arities
@overload
def ov1(x: B) -> A: ...
@overload
def ov1(x: E) -> E: ...
def ov1(x: Any) -> Any: raise NotImplementedError
@overload
def ov2(x: A) -> B: ...
@overload
def ov2(x: E) -> E: ...
def ov2(x: Any) -> Any: raise NotImplementedError
@overload
def ov3(x: A) -> A: ...
@overload
def ov3(x: A, y: A) -> A: ...
def ov3(x: Any, y: Any = None) -> Any: raise NotImplementedError
@overload
def ov4(x: B) -> B: ...
@overload
def ov4(x: C) -> C: ...
@overload
def ov4(x: E) -> E: ...
def ov4(x: Any) -> Any: raise NotImplementedError
@overload
def ov5(x: int) -> int: ...
@overload
def ov5(x: str) -> str: ...
def ov5(x: Any) -> Any: raise NotImplementedError

Rec = Union[int, List["Rec"]]
Rec2 = Union[int, List["Rec2"]]
class PRec(Protocol):
    def nxt(self) -> "PRec": ...
class ImplRec:
    def nxt(self) -> "ImplRec": raise NotImplementedError
fin: Final = 1

class Scope(Generic[T, TB, TV]):
%(body)s
'''


def declarations(decl: dict[str, list[str]]) -> str:
    """`class X(bases): ...` lines in dependency order (bases sorted by name)."""
    done: list[str] = []
    out = []
    todo = sorted(decl)
    while todo:
        progress = False
        for c in list(todo):
            if all(b in done for b in decl[c]):
                out.append("class %s%s: ..." % (c, "(%s)" % ", ".join(sorted(decl[c])) if decl[c] else ""))
                done.append(c); todo.remove(c); progress = True
        if not progress:
            raise MachineryError("cyclic class declarations %r" % decl)
    return "\n".join(out)


class World:
    """Real builds of the generated module; one instance per run."""

    def __init__(self, decl: dict[str, list[str]]) -> None:
        self.decls = declarations(decl)
        self.cache_dir = os.path.join(scratch("c08-cache-"), "cache")
        self.builds = 0
        self.ignored_errors = 0
        self.last_result: Any = None

    def build(self, sources: list[str]) -> tuple[list[Any], Any]:
        """Analyse `x<i>: <source>` for every source with a real build; returns the Types."""
        from mypy import build
        from mypy.modulefinder import BuildSource
        from mypy.options import Options

        body = "\n".join("    x%d: %s" % (i, s) for i, s in enumerate(sources) if not s.startswith("@")) or "    pass"
        src = HEADER % {"decls": self.decls, "body": body}
        o = Options()
        o.incremental = True          # typeshed comes from the cache after the first (cold) build
        o.cache_dir = self.cache_dir
        o.python_version = (3, 12)
        o.show_traceback = True
        o.preserve_asts = True
        try:
            r = build.build([BuildSource("c08uni.py", "c08uni", src)], o)
        except Exception as e:  # CompileError etc.
            raise MachineryError("build of the universe module failed: %r" % (e,))
        # the module is only a carrier of annotations: a complaint about an annotation (or anything that
        # stops the build) is a broken harness; other diagnostics (possible on a modified mypy) are noted
        fatal = [e for e in r.errors if re.search(r"\[(valid-type|name-defined|type-arg|misc|syntax|type-var|attr-defined|import[-a-z]*)\]|: error: Invalid|: error: Name ", e)]
        if fatal:
            raise MachineryError("the universe module has errors: %s" % fatal[:5])
        self.ignored_errors += len(r.errors)
        self.builds += 1
        tree = r.files["c08uni"]
        info = tree.names["Scope"].node
        out = []
        for i in range(len(sources)):
            if sources[i].startswith("@"):       # a declared name: overloaded function, class object
                typ = tree.names[sources[i][1:]].node.type
            else:
                typ = info.names["x%d" % i].node.type
            if typ is None:
                raise MachineryError("no type for %s" % sources[i])
            out.append(typ)
        self.last_result = r
        return out, tree


def contains_any(typ: Any) -> bool:
    """Any anywhere inside, or the bare `type` (which subtypes.py treats as Type[Any])."""
    from mypy.type_visitor import ANY_STRATEGY, BoolTypeQuery
    from mypy.types import Instance

    class Q(BoolTypeQuery):
        def __init__(self) -> None:
            super().__init__(ANY_STRATEGY)

        def visit_any(self, t: Any) -> bool:
            return True

        def visit_instance(self, t: Instance) -> bool:
            # an instance of `type` or of a metaclass: typeshed's type.__call__(self, *args: Any,
            # **kwds: Any) -> Any makes it compatible with every callable, i.e. Any in disguise
            if t.type.fullname == "builtins.type" or t.type.fallback_to_any or t.type.is_metaclass():
                return True
            return super().visit_instance(t)

        # the fallback Instance of a tuple / TypedDict is machinery (a plain tuple's partial_fallback is
        # tuple[Any, ...] whatever the items are), not part of the type the user wrote: look at the items
        def visit_tuple_type(self, t: Any) -> bool:
            return self.query_types(list(t.items))

        def visit_typeddict_type(self, t: Any) -> bool:
            return self.query_types(list(t.items.values()))

    return bool(typ.accept(Q()))


# =========================================================================== the laws, on real functions
class Real:
    """The functions under test (imported late: mypy comes from VERIF_REPO)."""

    def __init__(self) -> None:
        from mypy.join import join_types
        from mypy.meet import meet_types
        from mypy.subtypes import is_proper_subtype, is_same_type, is_subtype
        from mypy.typeops import make_simplified_union
        from mypy.types import UnionType
        self.sub, self.psub, self.same = is_subtype, is_proper_subtype, is_same_type
        self.join, self.meet, self.simp, self.Union = join_types, meet_types, make_simplified_union, UnionType

    def violated(self, law: str, ts: list[Any]) -> tuple[bool, str]:
        """Does the law instance fail on these types?  (fails?, what was observed)"""
        sub = self.sub
        try:
            if law == "reflexive":
                return (not sub(ts[0], ts[0]), "is_subtype(s, s) = False")
            if law == "proper-implies-sub":
                return (self.psub(ts[0], ts[1]) and not sub(ts[0], ts[1]), "is_proper_subtype(s, t) but not is_subtype(s, t)")
            if law == "transitive":
                if any(contains_any(x) for x in ts):
                    return (False, "")
                return (sub(ts[0], ts[1]) and sub(ts[1], ts[2]) and not sub(ts[0], ts[2]),
                        "is_subtype(s, t) and is_subtype(t, u) but not is_subtype(s, u)")
            if law in ("join-left", "join-right"):
                j = self.join(ts[0], ts[1])
                x = ts[0] if law == "join-left" else ts[1]
                return (not sub(x, j), "join_types(s, t) = %s is not a supertype of %s" % (j, "s" if law == "join-left" else "t"))
            if law in ("meet-left", "meet-right"):
                m = self.meet(ts[0], ts[1])
                x = ts[0] if law == "meet-left" else ts[1]
                return (not sub(m, x), "meet_types(s, t) = %s is not a subtype of %s" % (m, "s" if law == "meet-left" else "t"))
            if law == "simplify":
                raw = self.Union(list(ts))
                r = self.simp(list(ts))
                return (not (sub(r, raw) and sub(raw, r)),
                        "make_simplified_union(items) = %s is not equivalent to the unsimplified union" % (r,))
        except Exception as e:  # the function under test raised: no join / meet / answer at all
            return (True, "raised %r" % (e,))
        raise MachineryError("law " + law)


class Interner:
    def __init__(self, terms: list[Any]) -> None:
        self.types: list[Any] = [None] + list(terms)  # 1-based; ids 1..N are the terms, in order
        self.index: dict[Any, int] = {}
        for i, t in enumerate(terms, start=1):
            self.index.setdefault(t, i)

    def id(self, typ: Any) -> int:
        i = self.index.get(typ)
        if i is None:
            self.types.append(typ)
            i = len(self.types) - 1
            self.index[typ] = i
        return i


def compute_tables(real: Real, types: list[Any], item_lists: list[list[int]]) -> dict[str, Any]:
    """All observations the law checker needs, from the real functions (ids are 1-based)."""
    N = len(types)
    it = Interner(types)
    T = it.types
    sub_memo: dict[tuple[int, int], bool] = {}
    calls = {"sub": 0, "psub": 0, "same": 0, "join": 0, "meet": 0, "simplify": 0, "raised": 0}

    def ask(a: int, b: int) -> bool:
        r = sub_memo.get((a, b))
        if r is None:
            calls["sub"] += 1
            try:
                r = bool(real.sub(T[a], T[b]))
            except Exception:
                calls["raised"] += 1
                r = False
            sub_memo[(a, b)] = r
        return r

    psub = [set() for _ in range(N + 1)]
    same = [set() for _ in range(N + 1)]
    for i in range(1, N + 1):
        for j in range(1, N + 1):
            ask(i, j)
            calls["psub"] += 1; calls["same"] += 1
            if real.psub(T[i], T[j]):
                psub[i].add(j)
            if real.same(T[i], T[j]):
                same[i].add(j)
    join = [[0] * (N + 1) for _ in range(N + 1)]
    meet = [[0] * (N + 1) for _ in range(N + 1)]
    for i in range(1, N + 1):
        for j in range(1, N + 1):
            calls["join"] += 1; calls["meet"] += 1
            try:
                jid = it.id(real.join(T[i], T[j]))
                ask(i, jid); ask(j, jid)
            except Exception:
                calls["raised"] += 1
                jid = 0
            join[i][j] = jid
            try:
                mid = it.id(real.meet(T[i], T[j]))
                ask(mid, i); ask(mid, j)
            except Exception:
                calls["raised"] += 1
                mid = 0
            meet[i][j] = mid
    simp = []
    for items in item_lists:
        raw = it.id(real.Union([T[i] for i in items]))
        res: dict[int, list[int]] = {}
        n = len(items)
        for perm in itertools.permutations(range(n)):
            calls["simplify"] += 1
            try:
                rid = it.id(real.simp([T[items[p]] for p in perm]))
                ask(rid, raw); ask(raw, rid)
            except Exception:
                calls["raised"] += 1
                rid = 0
            res.setdefault(rid, [p + 1 for p in perm])
        simp.append({"items": items, "raw": raw, "res": res})
    M = len(T) - 1
    subrow = [set() for _ in range(M + 1)]
    asked = [set() for _ in range(M + 1)]
    for (a, b), r in sub_memo.items():
        if r:
            subrow[a].add(b)
        if not (a <= N and b <= N):
            asked[a].add(b)
    return {"N": N, "M": M, "types": T, "sub": subrow, "asked": asked, "psub": psub, "same": same,
            "join": join, "meet": meet, "simp": simp, "calls": calls,
            "anyfree": {i for i in range(1, N + 1) if not contains_any(T[i])}}


def tla_term(t: Term) -> str:
    return '[op |-> "%s", args |-> <<%s>>]' % (t["op"], ", ".join(tla_term(a) for a in t["args"]))


def iset(s: Iterable[int]) -> str:
    return "{" + ",".join(str(i) for i in sorted(s)) + "}"


def write_obs_module(d: str, terms: list[Term], tb: dict[str, Any], rows: tuple[int, int] | None = None,
                     simp_idx: list[int] | None = None) -> dict[str, Any]:
    """Lattice.tla, MC_Lattice.tla, the config and a generated LatticeObs.tla (the tables) in d.

    rows = (lo, hi): only the block of rows lo..hi (and the simplifications simp_idx) is written; the
    observed types the block does not mention are left out and the others renumbered (terms keep
    1..N).  Returns the maps needed to read TLC's answer: local id -> global id, local simp index."""
    N, M = tb["N"], tb["M"]
    lo, hi = rows or (1, N)
    simp_idx = list(range(len(tb["simp"]))) if simp_idx is None else simp_idx
    used = set(range(1, N + 1))
    for i in range(lo, hi + 1):
        used.update(tb["join"][i][1:]); used.update(tb["meet"][i][1:])
    for k in simp_idx:
        o = tb["simp"][k]
        used.add(o["raw"]); used.update(o["res"])
    used.discard(0)
    l2g = [0] + list(range(1, N + 1)) + sorted(x for x in used if x > N)
    g2l = {g: l for l, g in enumerate(l2g) if l}
    g2l[0] = 0
    ML = len(l2g) - 1

    def loc(ids: Iterable[int]) -> str:
        return iset(g2l[x] for x in ids if x in g2l)

    for fn in ("Lattice.tla", "MC_Lattice.tla", "MC_Lattice_Laws.cfg"):
        shutil.copy(os.path.join(SPEC, fn), d)
    with open(os.path.join(d, "LatticeObs.tla"), "w") as f:
        w = f.write
        w("---- MODULE LatticeObs ----\nEXTENDS Naturals\n")
        w("N == %d\nM == %d\nSRange == %d..%d\n" % (N, ML, lo, hi))
        w("AnyFree == %s\n" % iset(tb["anyfree"]))
        w("TermOf == <<\n%s\n>>\n" % ",\n".join(tla_term(t) for t in terms))
        w("SubRow == <<\n%s\n>>\n" % ",\n".join(loc(tb["sub"][l2g[i]]) for i in range(1, ML + 1)))
        w("AskedRow == <<\n%s\n>>\n" % ",\n".join(loc(tb["asked"][l2g[i]]) for i in range(1, ML + 1)))
        w("PSubRow == <<\n%s\n>>\n" % ",\n".join(iset(tb["psub"][i]) for i in range(1, N + 1)))
        w("SameRow == <<\n%s\n>>\n" % ",\n".join(iset(tb["same"][i]) for i in range(1, N + 1)))
        for name, key in (("JoinT", "join"), ("MeetT", "meet")):
            w("%s == <<\n%s\n>>\n" % (name, ",\n".join(
                ("<<" + ",".join(str(g2l[x]) for x in tb[key][i][1:]) + ">>") if lo <= i <= hi else "<<>>"
                for i in range(1, N + 1))))
        recs = []
        for k in simp_idx:
            o = tb["simp"][k]
            res = "{" + ", ".join("[r |-> %d, perm |-> <<%s>>]" % (g2l[r], ",".join(map(str, p))) for r, p in sorted(o["res"].items())) + "}"
            recs.append("[items |-> <<%s>>, raw |-> %d, res |-> %s]" % (",".join(map(str, o["items"])), g2l[o["raw"]], res))
        w("SimpObs == <<\n%s\n>>\n" % ",\n".join(recs))
        w("====\n")
    return {"l2g": l2g, "simp_idx": simp_idx, "rows": (lo, hi), "observed": ML}


def globalise(viol: list[dict[str, Any]], maps: dict[str, Any]) -> list[dict[str, Any]]:
    """Violation records of one block, in the numbering of the whole table."""
    out = []
    l2g = maps["l2g"]
    for x in viol:
        at = list(x["at"])
        if x["law"] == "simplify":
            at = [maps["simp_idx"][at[0] - 1] + 1, l2g[at[1]], l2g[at[2]]]
        else:
            at = [l2g[i] for i in at]
        out.append({"law": x["law"], "at": at})
    return out


_RE_COV2 = re.compile(r"^<(\w+) line \d+, col \d+ to line \d+, col \d+ of module (\w+)(?: \([\d ]+\))?>: (\d+):(\d+)")


def run_laws(d: str, workers: int, timeout: int, heap: str = "4g") -> Any:
    r = tlc("MC_Lattice", "MC_Lattice_Laws.cfg", cwd=d, workers=workers, timeout=timeout, heap=heap, extra=["-continue"])
    if r.error:
        raise MachineryError("TLC on the observation tables: %s\n%s" % (r.error, r.out[-1500:]))
    for line in r.out.splitlines():
        m = _RE_COV2.match(line)
        if m and m.group(1) not in r.coverage:
            r.coverage[m.group(1)] = (int(m.group(3)), int(m.group(4)))
    return r


# =========================================================================== re-confirmation and minimisation
A_ATOM = atom("A")
SIMPLE_FN = {"op": "FnPos", "args": [atom("A"), atom("A")]}
# atoms tried (in this order of preference, after size) as replacements of any sub-term
PALETTE = [atom(a) for a in ("A", "B", "E", "None", "float", "int", "WM", "WO", "object")]


def _paths(t: Term, pre: tuple[int, ...] = ()) -> Iterable[tuple[int, ...]]:
    yield pre
    for i, a in enumerate(t["args"]):
        yield from _paths(a, pre + (i,))


def _at(t: Term, path: tuple[int, ...]) -> Term:
    for i in path:
        t = t["args"][i]
    return t


def _replace(t: Term, path: tuple[int, ...], new: Term) -> Term:
    if not path:
        return new
    args = list(t["args"])
    args[path[0]] = _replace(args[path[0]], path[1:], new)
    return {"op": t["op"], "args": args}


def reductions(law: str, ts: tuple[Term, ...]) -> list[tuple[Term, ...]]:
    """Strictly smaller variants of a law instance, most reduced first (deterministic order)."""
    out: list[tuple[Term, ...]] = []
    n = len(ts)
    if law == "simplify":
        if n > 2:
            for i in range(n):
                out.append(ts[:i] + ts[i + 1:])
    elif n == 2 and ts[0]["args"] and ts[0]["op"] == ts[1]["op"] and len(ts[0]["args"]) == len(ts[1]["args"]):
        for i in range(len(ts[0]["args"])):            # descend into both at once: Co[X] vs Co[Y] -> X vs Y
            out.append((ts[0]["args"][i], ts[1]["args"][i]))
    for pos in range(n):
        x = ts[pos]
        for a in x["args"]:                              # hoist a direct argument
            out.append(ts[:pos] + (a,) + ts[pos + 1:])
        for path in _paths(x):                           # replace a sub-term by a plain atom
            old = _at(x, path)
            if not old["args"]:
                for fam in FAMILIES:                     # a declared atom by an earlier one of its family
                    if old["op"] in fam:
                        for o in fam[:fam.index(old["op"])]:
                            out.append(ts[:pos] + (_replace(x, path, atom(o)),) + ts[pos + 1:])
            elif old["op"].startswith("Fn") and old != SIMPLE_FN:   # any callable by the simplest one
                out.append(ts[:pos] + (_replace(x, path, SIMPLE_FN),) + ts[pos + 1:])
            for a in PALETTE:
                # a compound sub-term by any palette atom, an atom only by an earlier palette atom
                if old["args"] or (old != a and (old not in PALETTE or PALETTE.index(a) < PALETTE.index(old))):
                    out.append(ts[:pos] + (_replace(x, path, a),) + ts[pos + 1:])
    seen = {tuple(tkey(x) for x in ts)}
    res = []
    for c in out:
        k = tuple(tkey(x) for x in c)
        if k not in seen:
            seen.add(k)
            res.append(c)
    rank = {tkey(a): i for i, a in enumerate(PALETTE)}

    def atom_rank(x: Term) -> int:
        if not x["args"]:
            return rank.get(tkey(x), len(PALETTE))
        return sum(atom_rank(a) for a in x["args"])

    res.sort(key=lambda c: (sum(tsize(x) for x in c), sum(atom_rank(x) for x in c), tuple(tkey(x) for x in c)))
    return res


def case_key(law: str, ts: tuple[Term, ...]) -> str:
    return law + ":" + " | ".join(render(x) for x in ts)


# nominal classes, literals and None: which of them stands in a minimal failing input is an accident
# of the universe (A vs int vs None ...); the identifying key of a finding abstracts them to `_`
# and keeps everything structural (constructors, parameter kinds, Any, type variables, NT, ...)
KEY_ABSTRACT = {"A", "B", "C", "D", "E", "object", "int", "str", "float", "bool", "None",
                "Lit1", "Lit2", "LitA", "LitTrue", "ImplA", "ImplB", "Col", "ColR", "ColG", "WM", "WMSub", "WO"}


DECL_SHAPE = {"Ov1": "<overload>", "Ov2": "<overload>", "Ov3": "<overload>", "Ov4": "<overload>", "Ov5": "<overload>",
              "ObjA": "<class object>", "ObjB": "<class object>",
              "ObjWM": "<class object with metaclass>", "ObjWO": "<class object with metaclass>"}
# families of declared atoms: a member may be replaced by an earlier one while minimising
FAMILIES = [["Ov1", "Ov2", "Ov3", "Ov4", "Ov5"], ["ObjA", "ObjB"], ["ObjWM", "ObjWO"]]


def render_shape(t: Term) -> str:
    op, args = t["op"], t["args"]
    if not args:
        if op in DECL_SHAPE:
            return DECL_SHAPE[op]
        return "_" if op in KEY_ABSTRACT else render(t)
    if op == "Union":                    # item order is not part of the shape
        return "Union[%s]" % ", ".join(sorted(render_shape(a) for a in args))
    if op == "Opt":                      # Optional[X] is Union[X, None]: one shape
        return "Union[%s]" % ", ".join(sorted([render_shape(args[0]), "_"]))
    if op in VT_PREFIX:
        return _variadic(op, [render_shape(a) for a in args])
    return OP_SRC[op] % tuple(render_shape(a) for a in args)


def shape_key(law: str, ts: tuple[Term, ...]) -> str:
    return law + ":" + " | ".join(render_shape(x) for x in ts)


def confirm_and_minimise(world: World, real: Real, cases: list[tuple[str, tuple[Term, ...]]],
                         max_rounds: int = 12) -> tuple[dict[str, dict[str, Any]], list[str], int]:
    """Re-evaluate every reported law instance on fresh builds with the real functions, and shrink
    each to a 1-minimal failing instance.  Returns {minimal key: info}, the instances that did not
    reproduce, and the number of real evaluations."""
    evals = 0
    current: dict[str, tuple[str, tuple[Term, ...]]] = {}
    origin: dict[str, list[str]] = {}
    for law, ts in cases:
        k = case_key(law, ts)
        current[k] = (law, ts)
        origin[k] = [k]
    unreproduced: list[str] = []
    observed: dict[str, str] = {}
    frozen: set[str] = set()     # reproduced once but not again (answers that depend on hidden state): kept as they are
    first = True
    for _ in range(max_rounds):
        cand: dict[str, list[tuple[Term, ...]]] = {k: ([] if k in frozen else reductions(law, ts)) for k, (law, ts) in current.items()}
        need: dict[str, None] = {}
        for k, (law, ts) in current.items():
            for x in ts:
                need.setdefault(render(x))
            for c in cand[k]:
                for x in c:
                    need.setdefault(render(x))
        srcs = list(need)
        types, _tree = world.build(srcs)
        ty = dict(zip(srcs, types))
        nxt: dict[str, tuple[str, tuple[Term, ...]]] = {}
        changed = False
        for k, (law, ts) in current.items():
            if k in frozen:
                nxt[k] = (law, ts)
                continue
            bad, what = real.violated(law, [ty[render(x)] for x in ts])
            evals += 1
            if not bad:
                if first:
                    unreproduced.append(k)
                    continue
                frozen.add(k)
                nxt[k] = (law, ts)
                continue
            new = None
            for c in cand[k]:
                evals += 1
                b2, w2 = real.violated(law, [ty[render(x)] for x in c])
                if b2:
                    new = c; what = w2
                    break
            if new is None:
                nk = k
                nxt[nk] = (law, ts)
            else:
                changed = True
                nk = case_key(law, new)
                nxt.setdefault(nk, (law, new))
            observed[nk] = what
            if nk != k:
                origin.setdefault(nk, [])
                origin[nk] += origin.pop(k, [])
        current = nxt
        first = False
        if not changed:
            break
    else:
        raise MachineryError("minimisation did not converge")
    res: dict[str, dict[str, Any]] = {}
    for k in sorted(current, key=lambda k: (sum(tsize(x) for x in current[k][1]), k)):
        law, ts = current[k]
        sk = shape_key(law, ts)
        if sk not in res:      # the smallest minimal instance represents its shape
            res[sk] = {"law": law, "terms": [render(x) for x in ts], "observed": observed.get(k, ""),
                       "instances": 0, "minimal_instances": [], "examples": [], "unstable": k in frozen}
        res[sk]["instances"] += len(origin.get(k, []))
        res[sk]["minimal_instances"].append(k)
        res[sk]["examples"] += origin.get(k, [])[:2]
    for info in res.values():
        info["examples"] = info["examples"][:6]
    return res, unreproduced, evals


# =========================================================================== the subtype caches
FLAGS = ["strict_optional", "proper", "ignore_type_params", "ignore_pos_arg_names", "ignore_declared_variance",
         "always_covariant", "ignore_promotions", "erase_instances", "keep_erased_types"]
# Instance pairs the behaviours ask (sources analysed by the same real build; <fin> is the Instance
# with last_known_value of `fin: Final = 1`, <erased> is Co[ErasedType], built by hand as type
# inference does)
TOP_PAIRS = [("B", "A"), ("A", "B"), ("int", "float"), ("Inv[B]", "Inv[A]"), ("Co[None]", "Co[A]"),
             ("Co[Callable[[Arg(int, 'x')], int]]", "Co[Callable[[Arg(int, 'y')], int]]"),
             ("<erased>", "Co[A]"), ("Co[A]", "Co[Any]"), ("Impl2", "P2"), ("ImplB", "P"),
             ("int", "<fin>"), ("<fin>", "int"), ("Co[Inv[B]]", "Co[Inv[A]]"), ("CoB", "Co[A]"),
             ("Contra[float]", "Contra[int]")]


def valid_kinds() -> list[tuple[bool, ...]]:
    out = []
    for k in itertools.product([False, True], repeat=9):
        if k[1] and (k[3] or k[4]):
            continue
        if not k[1] and (k[7] or k[8]):
            continue
        out.append(k)
    return out


class CacheWorld:
    """Real type_state + real subtype functions over Instances of one real build."""

    def __init__(self, world: World) -> None:
        from mypy import state as mstate
        from mypy.subtypes import SubtypeContext, SubtypeVisitor, is_proper_subtype, is_subtype
        from mypy.types import ErasedType, Instance
        from mypy.typestate import type_state
        self.ts = type_state
        self.mstate = mstate.state
        self.Ctx, self.Visitor, self.Instance = SubtypeContext, SubtypeVisitor, Instance
        self.is_subtype, self.is_proper_subtype = is_subtype, is_proper_subtype
        srcs: list[str] = []
        for l, r in TOP_PAIRS:
            for s in (l, r):
                if not s.startswith("<") and s not in srcs:
                    srcs.append(s)
        types, tree = world.build(srcs)
        self.named: dict[str, Any] = dict(zip(srcs, types))
        fin = tree.names["fin"].node.type
        if not isinstance(fin, Instance) or fin.last_known_value is None:
            raise MachineryError("fin: Final = 1 has no last_known_value: %r" % (fin,))
        self.named["<fin>"] = fin
        self.named["<erased>"] = Instance(self.named["Co[A]"].type, [ErasedType()])
        for s, t in self.named.items():
            if not isinstance(t, Instance):
                raise MachineryError("%s is not an Instance" % s)
        self.pairs: list[tuple[Any, Any]] = []          # pair id (1-based) -> (left, right)
        self.pair_index: dict[tuple[Any, Any], int] = {}
        self.pair_name: list[str] = []
        self.infos: dict[str, Any] = {}
        self.entries: list[tuple[tuple[bool, ...], int]] = []   # entry id (1-based) -> (kind, pair)
        self.entry_index: dict[tuple[tuple[bool, ...], int], int] = {}
        self.truth: dict[int, bool] = {}
        self.recpos: dict[int, set[int]] = {}
        self.recneg: dict[int, set[int]] = {}
        self.child: dict[int, set[int]] = {}
        self.groups: list[set[int]] = []
        self.unaskable: set[int] = set()
        self.fresh_evals = 0

    # ---- identification
    def pair_id(self, l: Any, r: Any, name: str | None = None) -> int:
        i = self.pair_index.get((l, r))
        if i is None:
            self.pairs.append((l, r))
            i = len(self.pairs)
            self.pair_index[(l, r)] = i
            self.pair_name.append(name or "%s <: %s" % (l, r))
            self.infos.setdefault(r.type.fullname, r.type)
        return i

    def entry_id(self, kind: tuple[bool, ...], pair: int) -> int:
        i = self.entry_index.get((kind, pair))
        if i is None:
            self.entries.append((kind, pair))
            i = len(self.entries)
            self.entry_index[(kind, pair)] = i
        return i

    # ---- the real operations
    def clear_directly(self) -> None:
        self.ts._subtype_caches.clear()
        self.ts._negative_subtype_caches.clear()

    def ask(self, kind: tuple[bool, ...], l: Any, r: Any) -> Any:
        """The real answer (a bool), or 'raised <exception type>' when the real function raises."""
        try:
            return self._ask(kind, l, r)
        except Exception as e:
            return "raised %s" % type(e).__name__

    def _ask(self, kind: tuple[bool, ...], l: Any, r: Any) -> bool:
        ctx = self.Ctx(ignore_type_params=kind[2], ignore_pos_arg_names=kind[3], ignore_declared_variance=kind[4],
                       always_covariant=kind[5], ignore_promotions=kind[6], erase_instances=kind[7],
                       keep_erased_types=kind[8])
        with self.mstate.strict_optional_set(kind[0]):
            if kind[1]:
                return bool(self.is_proper_subtype(l, r, subtype_context=ctx))
            return bool(self.is_subtype(l, r, subtype_context=ctx))

    def contents(self) -> tuple[set[int], set[int], list[str]]:
        """Projection of the real caches onto entry ids: (pos, neg, entries the tables do not know)."""
        out: list[set[int]] = [set(), set()]
        unknown: list[str] = []
        for which, cache in enumerate((self.ts._subtype_caches, self.ts._negative_subtype_caches)):
            for info, per_kind in cache.items():
                for kind, rel in per_kind.items():
                    for (l, r) in rel:
                        p = self.pair_index.get((l, r))
                        e = self.entry_index.get((tuple(kind), p)) if p is not None else None
                        if e is None:
                            unknown.append("%s %s <: %s" % (kind, l, r))
                        else:
                            out[which].add(e)
                        if r.type is not info:
                            unknown.append("filed under %s: %s <: %s" % (info.fullname, l, r))
        return out[0], out[1], unknown

    # ---- extraction of the model's tables (every entry evaluated on empty caches)
    def extract(self) -> None:
        kinds = valid_kinds()
        stack: list[int] = []
        seen_children: dict[int, set[int]] = {}
        cw = self
        orig = self.Visitor.visit_instance

        def visit_instance(vis: Any, left: Any) -> bool:
            right = vis.right
            if isinstance(right, cw.Instance):
                e = cw.entry_id(tuple(vis._subtype_kind), cw.pair_id(left, right))
                if stack:
                    seen_children.setdefault(stack[-1], set()).add(e)
                stack.append(e)
                try:
                    return orig(vis, left)
                finally:
                    stack.pop()
            return orig(vis, left)

        own: dict[int, tuple[set[int], set[int]]] = {}
        orig_pos, orig_neg = self.ts.record_subtype_cache_entry, self.ts.record_negative_subtype_cache_entry

        def rec_pos(kind: Any, left: Any, right: Any) -> None:
            before = len(cw.ts._subtype_caches.get(right.type, {}).get(kind, ()))
            orig_pos(kind, left, right)
            if stack and len(cw.ts._subtype_caches.get(right.type, {}).get(kind, ())) != before:
                own.setdefault(stack[-1], (set(), set()))[0].add(cw.entry_id(tuple(kind), cw.pair_id(left, right)))

        def rec_neg(kind: Any, left: Any, right: Any) -> None:
            before = len(cw.ts._negative_subtype_caches.get(right.type, {}).get(kind, ()))
            orig_neg(kind, left, right)
            if stack and len(cw.ts._negative_subtype_caches.get(right.type, {}).get(kind, ())) != before:
                own.setdefault(stack[-1], (set(), set()))[1].add(cw.entry_id(tuple(kind), cw.pair_id(left, right)))

        self.Visitor.visit_instance = visit_instance  # type: ignore[method-assign]
        self.ts.record_subtype_cache_entry = rec_pos  # type: ignore[method-assign]
        self.ts.record_negative_subtype_cache_entry = rec_neg  # type: ignore[method-assign]
        try:
            todo: list[int] = []
            for (ls, rs) in TOP_PAIRS:
                p = self.pair_id(self.named[ls], self.named[rs], "%s <: %s" % (ls, rs))
                grp = set()
                for k in kinds:
                    grp.add(self.entry_id(k, p))
                self.groups.append(grp)
                todo.extend(sorted(grp))
            done: set[int] = set()
            while todo or len(done) < len(self.entries):
                if not todo:     # entries that only ever appeared as somebody's recording
                    todo = [e for e in range(1, len(self.entries) + 1) if e not in done]
                e = todo.pop()
                if e in done:
                    continue
                done.add(e)
                kind, p = self.entries[e - 1]
                l, r = self.pairs[p - 1]
                self.clear_directly()
                seen_children.clear()
                own.clear()
                del stack[:]
                if (kind[1] and (kind[3] or kind[4])) or (not kind[1] and (kind[7] or kind[8])):
                    # a key that no query can have (SubtypeContext.check_context): it can only have been
                    # RECORDED, by a build_subtype_kind that does not return the flags of the query.
                    # Not askable; it keeps the polarity it is recorded with (decided below).
                    self.truth[e] = False
                    self.recpos[e], self.recneg[e], self.child[e] = set(), set(), set()
                    self.unaskable.add(e)
                    continue
                self.truth[e] = self.ask(kind, l, r)
                self.fresh_evals += 1
                pos, neg, unknown = self.contents()
                if unknown:
                    raise MachineryError("cache entry outside the traced queries: %s" % unknown[:3])
                self.recpos[e], self.recneg[e] = own.get(e, (set(), set()))
                recorded = set().union(*[a | b for a, b in own.values()]) if own else set()
                if recorded != pos | neg:
                    raise MachineryError("recordings not attributed to a query frame: %s vs %s" % (sorted(recorded), sorted(pos | neg)))
                # direct children: sub-queries whose parent frame is e itself; the top-level call may
                # not reach visit_instance at all (left == right shortcut): then nothing is recorded
                self.child[e] = set(seen_children.get(e, set()))
                for d in sorted(self.child[e] | self.recpos[e] | self.recneg[e]):
                    if d not in done:
                        todo.append(d)
            self.clear_directly()
        finally:
            self.Visitor.visit_instance = orig  # type: ignore[method-assign]
            del self.ts.record_subtype_cache_entry     # instance attributes shadowing the methods
            del self.ts.record_negative_subtype_cache_entry
        # an evaluation that memoises an answer which is not the fresh answer of the memoised query:
        # the next such query would be answered from the memo, wrongly (confirmed by replay in main)
        self.unsound: list[tuple[int, int]] = []
        for e in range(1, len(self.entries) + 1):
            for d in self.recpos[e] & self.unaskable:
                self.truth[d] = True
        for e in range(1, len(self.entries) + 1):
            for d in sorted(self.recpos[e]):
                if self.truth[d] is not True:
                    self.unsound.append((e, d))
            for d in sorted(self.recneg[e]):
                if self.truth[d] is not False:
                    self.unsound.append((e, d))
        # a group = the top pair's entries plus everything reachable from them
        for gi, grp in enumerate(self.groups):
            reach = set(grp)
            work = list(grp)
            while work:
                e = work.pop()
                for d in self.child[e] | self.recpos[e] | self.recneg[e]:
                    if d not in reach:
                        reach.add(d); work.append(d)
            self.groups[gi] = reach

    def write_obs_module(self, d: str) -> None:
        for fn in os.listdir(SPEC):
            if fn in ("SubtypeCache.tla", "MC_SubtypeCache.tla") or re.match(r"(MC|Gen|Mut)_SubtypeCache.*\.cfg$", fn):
                shutil.copy(os.path.join(SPEC, fn), d)
        NE = len(self.entries)
        with open(os.path.join(d, "SubtypeCacheObs.tla"), "w") as f:
            w = f.write
            w("---- MODULE SubtypeCacheObs ----\n")
            w("NE == %d\n" % NE)
            w("EntKind == <<\n%s\n>>\n" % ",\n".join(tla_value(list(k)) for k, _ in self.entries))
            w("EntPair == <<%s>>\n" % ", ".join(str(p) for _, p in self.entries))
            w("Truth == %s\n" % iset(e for e in range(1, NE + 1) if self.truth[e] is True))
            w("RecPos == <<\n%s\n>>\n" % ",\n".join(iset(self.recpos[e]) for e in range(1, NE + 1)))
            w("RecNeg == <<\n%s\n>>\n" % ",\n".join(iset(self.recneg[e]) for e in range(1, NE + 1)))
            w("Child == <<\n%s\n>>\n" % ",\n".join(iset(self.child[e]) for e in range(1, NE + 1)))
            w("PairInfo == <<%s>>\n" % ", ".join('"%s"' % r.type.fullname for _, r in self.pairs))
            w("PairCacheable == <<%s>>\n" % ", ".join(
                "TRUE" if l.last_known_value is None and r.last_known_value is None else "FALSE" for l, r in self.pairs))
            w("Groups == <<\n%s\n>>\n" % ",\n".join(iset(g) for g in self.groups))
            w("====\n")

    def flag_discrimination(self) -> dict[str, int]:
        """For each flag: number of asked pairs whose fresh answer changes when only that flag flips."""
        res = {}
        for fi, name in enumerate(FLAGS):
            n = 0
            for grp_pair in range(1, len(TOP_PAIRS) + 1):
                hit = False
                for (kind, p), e in self.entry_index.items():
                    if p != grp_pair or kind[fi]:
                        continue
                    k2 = tuple((not x) if i == fi else x for i, x in enumerate(kind))
                    e2 = self.entry_index.get((k2, p))
                    if e2 is not None and self.truth[e2] != self.truth[e]:
                        hit = True
                        break
                n += hit
            res[name] = n
        return res

    # ---- replay of one TLC behaviour
    def describe(self, e: int) -> str:
        kind, p = self.entries[e - 1]
        on = [FLAGS[i] for i in range(9) if kind[i] and i != 0] + ([] if kind[0] else ["no_strict_optional"])
        return "%s [%s]" % (self.pair_name[p - 1], ",".join(on) or "plain")

    def replay(self, hist: list[dict[str, Any]]) -> tuple[str | None, str | None]:
        """Step the real type_state along the behaviour.  Returns (property problem, conformance problem)."""
        self.clear_directly()
        asked: list[tuple[int, bool]] = []
        conf: str | None = None
        for i, st in enumerate(hist):
            if st["a"] == "q":
                e = st["e"]
                kind, p = self.entries[e - 1]
                l, r = self.pairs[p - 1]
                got = self.ask(kind, l, r)
                asked.append((e, got))
                if got != self.truth[e]:
                    return ("step %d: %s answered %s, with empty caches the answer is %s"
                            % (i + 1, self.describe(e), got, self.truth[e]), conf)
                if got != st["ans"]:
                    conf = conf or "step %d: model answer %s, real %s" % (i + 1, st["ans"], got)
            elif st["a"] == "reset":
                self.ts.reset_all_subtype_caches()
            elif st["a"] == "resetfor":
                self.ts.reset_subtype_caches_for(self.infos[st["info"]])
            pos, neg, unknown = self.contents()
            if conf is None and (unknown or pos != set(st["pos"]) or neg != set(st["neg"])):
                conf = ("after step %d (%s): real caches pos=%s neg=%s unknown=%s; model pos=%s neg=%s"
                        % (i + 1, st["a"], sorted(pos), sorted(neg), unknown[:2], sorted(st["pos"]), sorted(st["neg"])))
        # the property's own oracle: the same questions after reset_all_subtype_caches()
        for e, got in asked:
            self.ts.reset_all_subtype_caches()
            kind, p = self.entries[e - 1]
            l, r = self.pairs[p - 1]
            again = self.ask(kind, l, r)
            if again != got:
                return ("%s answered %s during the history and %s after reset_all_subtype_caches()"
                        % (self.describe(e), got, again), conf)
        self.clear_directly()
        return None, conf


# =========================================================================== random deeper terms (thorough)
# clean dimensions only: the finding-prone shapes (named tuples, callables with non-positional
# parameters, contravariant arguments related through Any / promotions) are enumerated
# deterministically by the specification's universe, never sampled
DEEP_UNARY = ["Inv", "Co", "VarTuple", "Opt", "Seq", "PG", "Contra", "PContra"]
DEEP_BINARY = ["Tuple2", "Union", "FnPos", "TuplePre"]
DEEP_TYPE_ARGS = ["A", "B", "C", "D", "E", "int", "str", "T", "TB", "ImplA", "Col", "P"]
CONTRA_SAFE_ATOMS = {"A", "B", "C", "D", "E", "str", "None", "T", "TB", "ImplA", "ImplB", "P", "Col", "TD1", "TD2", "object"}


def _clean_sub(t: Term) -> bool:
    bad_ops = {"FnNamed", "FnOpt", "FnOptNamed", "FnStar", "FnKw", "FnKwOpt", "FnStar2", "Fn0", "Fn2", "Items"}
    bad_atoms = {"NT", "type", "CallAny"} | set(DECL_ATOMS)   # (declared names cannot be nested in an annotation)
    if t["op"] in bad_ops or (not t["args"] and t["op"] in bad_atoms):
        return False
    return all(_clean_sub(a) for a in t["args"])


def _atoms_of(t: Term) -> set[str]:
    if not t["args"]:
        return {t["op"]}
    return set().union(*[_atoms_of(a) for a in t["args"]])


def random_deep_terms(base: list[Term], n: int, rnd: random.Random) -> list[Term]:
    clean = [t for t in base if _clean_sub(t) and "Contra" not in json.dumps(t)]  # (also excludes PContra)
    have = {tkey(t) for t in base}
    out: list[Term] = []
    guard = 0
    while len(out) < n and guard < 100 * n:
        guard += 1
        r = rnd.random()
        if r < 0.1:
            t = {"op": "TypeOf", "args": [atom(rnd.choice(DEEP_TYPE_ARGS))]}
            t = {"op": rnd.choice(["Co", "Inv", "Opt", "VarTuple"]), "args": [t]}
        elif r < 0.55:
            op = rnd.choice(DEEP_UNARY)
            a = rnd.choice(clean)
            if op in ("Contra", "PContra") and not _atoms_of(a) <= CONTRA_SAFE_ATOMS:
                continue
            t = {"op": op, "args": [a]}
        else:
            op = rnd.choice(DEEP_BINARY)
            t = {"op": op, "args": [rnd.choice(clean), rnd.choice(clean)]}
        if tsize(t) < 3 or tkey(t) in have:
            continue
        have.add(tkey(t))
        out.append(t)
    return out


# =========================================================================== main
def gen_universe(tier: str) -> tuple[dict[str, list[str]], list[Term], list[Term], Any]:
    cfg = "Gen_Lattice_Q.cfg" if tier == "quick" else "Gen_Lattice_T.cfg"
    r = tlc("MC_Lattice", cfg, workers=2, timeout=600)
    if not r.ok:
        raise MachineryError("term generator %s: %s %s" % (cfg, r.violated, r.error))
    if r.never_fired():
        raise MachineryError("generator actions never fired: %s" % r.never_fired())
    decl = r.json_lines("DECL")
    allt = sorted(r.json_lines("TERM"), key=tkey)
    terms = [t for t in allt if t["op"] != "Items"]
    items = [t for t in allt if t["op"] == "Items"]
    if len(decl) != 1 or len(terms) < 150 or len(items) < 500:
        raise MachineryError("term generator emitted %d declarations, %d terms, %d item lists" % (len(decl), len(terms), len(items)))
    return decl[0], terms, items, r


def cases_from_viol(viol: list[dict[str, Any]], terms: list[Term], tb: dict[str, Any]) -> list[tuple[str, tuple[Term, ...]]]:
    cases = []
    for x in viol:
        law, at = x["law"], x["at"]
        if law == "simplify":
            o = tb["simp"][at[0] - 1]
            perm = o["res"][at[1]]
            ts = tuple(terms[o["items"][p - 1] - 1] for p in perm)
        elif law == "transitive":
            ts = tuple(terms[i - 1] for i in at)
        elif law == "reflexive":
            ts = (terms[at[0] - 1],)
        else:
            ts = (terms[at[0] - 1], terms[at[1] - 1])
        cases.append((law, ts))
    return cases


def table_selftest(real: Real, terms: list[Term], types: list[Any]) -> dict[str, Any]:
    """The law checker must reject a corrupted observation table (and only because of the corruption)."""
    want = ["A", "B", "D", "E", "object", "None", "Union[A, E]", "Tuple[A, B]", "Tuple[B, A]", "Type[A]", "Type[B]", "Literal[1]", "int"]
    idx = [i for i, t in enumerate(terms) if render(t) in want]
    sub_terms = [terms[i] for i in idx]
    sub_types = [types[i] for i in idx]
    names = [render(t) for t in sub_terms]
    tb = compute_tables(real, sub_types, [[names.index("B") + 1, names.index("E") + 1]])
    a, o = names.index("A") + 1, names.index("object") + 1
    out = {}
    recs: dict[str, set[str]] = {}
    for label, corrupt in (("intact", False), ("A-not-below-object", True)):
        if corrupt:
            tb["sub"][a].discard(o)
        d = scratch("c08-self-")
        write_obs_module(d, sub_terms, tb)
        r = run_laws(d, 2, 600)
        out[label] = sorted({v["law"] for v in r.json_lines("VIOL")})
        recs[label] = {json.dumps(v, sort_keys=True) for v in r.json_lines("VIOL")}
    # the corruption must be noticed: new violation records that mention both A and object
    new = [json.loads(x) for x in recs["A-not-below-object"] - recs["intact"]]
    if not any(a in v["at"] and o in v["at"] for v in new) or not recs["intact"] <= recs["A-not-below-object"]:
        raise MachineryError("law checker self-test failed: %r" % out)
    return out


def run_replay_file(path: str) -> int:
    with open(path) as f:
        rec = json.load(f)["replay"]
    world = World(rec["decl"])
    if rec.get("kind") == "law":
        real = Real()
        types, _ = world.build(rec["terms"])
        bad, what = real.violated(rec["law"], types)
        print("%s on %s: %s" % (rec["law"], " | ".join(rec["terms"]), ("VIOLATED: " + what) if bad else "holds"))
        return 1 if bad else 0
    if rec.get("kind") == "cache":
        cw = CacheWorld(world)
        cw.extract()
        hist = rec["history"]
        for st, (a, what) in zip(hist, rec["steps"]):     # entry ids are positional: make sure they still mean the same
            if a == "q" and cw.describe(st["e"]) != what:
                print("the tables changed: entry %d is now %s, was %s" % (st["e"], cw.describe(st["e"]), what))
                return 2
        prob, conf = cw.replay(hist)
        print("history %s: %s" % (rec["steps"], prob or conf or "answers and cache contents as specified"))
        return 1 if (prob or conf) else 0
    print("nothing to replay in " + path)
    return 2


def main(argv: list[str]) -> int:
    tier, seed, replay = parse_args(argv)
    if replay:
        return run_replay_file(replay)
    from concurrent.futures import ThreadPoolExecutor
    import mypy
    if not os.path.realpath(mypy.__file__).startswith(os.path.realpath(REPO) + os.sep):
        # e.g. VERIF_REPO names a directory that does not exist: another mypy would be checked silently
        raise MachineryError("mypy is imported from %s, not from the tree under test %s" % (mypy.__file__, REPO))
    v = Verdict(PID, tier, seed)
    rnd = random.Random(seed)
    quick = tier == "quick"
    t0 = time.time()
    timing: dict[str, float] = {}
    for m in ("MC_Lattice.tla", "MC_SubtypeCache.tla"):
        sany(os.path.join(SPEC, m))
    cov: dict[str, Any] = {}
    states = transitions = 0

    # ---- 1. the universe, from the specification
    decl, terms, items, rgen = gen_universe(tier)
    states += rgen.distinct; transitions += rgen.generated
    cov["Lattice/generator"] = dict(coverage_summary(rgen), states=rgen.distinct, transitions=rgen.generated)
    n_spec_terms = len(terms)
    deep: list[Term] = []
    if not quick:
        deep = random_deep_terms(terms, 90, rnd)
        terms = terms + deep
    idx = {tkey(t): i for i, t in enumerate(terms, 1)}
    item_lists = [[idx[tkey(a)] for a in it["args"]] for it in items]
    N = len(terms)
    # pairs: a seeded sample of 6,000 (quick) / 20,000 (thorough) of the N(N+1)/2 (every raw union is one
    # more observed type and TLC has to hold the tables in memory); both orders are permutations
    all_pairs = [[i, j] for i in range(1, N + 1) for j in range(i, N + 1)]
    rnd.shuffle(all_pairs)
    item_lists += sorted(all_pairs[:6000 if quick else 20000])
    for _ in range(1500 if quick else 6000):
        item_lists.append([rnd.randrange(1, N + 1) for _ in range(rnd.choice([3, 4]))])
    timing["generate"] = time.time() - t0

    # ---- 2. one real build (cold, real typeshed) analyses every term
    world = World(decl)
    types, _tree = world.build([render(t) for t in terms])
    real = Real()
    timing["build"] = time.time() - t0

    # ---- 3. cache model: extraction, then TLC in the background while the tables are computed
    cw = CacheWorld(world)
    cw.extract()
    for e, d in cw.unsound[:5]:
        hist = [{"a": "q", "e": e, "info": "", "ans": cw.truth[e], "pos": [], "neg": []},
                {"a": "q", "e": d, "info": "", "ans": cw.truth[d], "pos": [], "neg": []}]
        prob, _conf = cw.replay(hist)
        short = [["q", cw.describe(e)], ["q", cw.describe(d)]]
        if not prob:
            raise MachineryError("unsound recording %s not confirmed by replay" % short)
        v.violation("cache:answer:" + json.dumps(short), {"kind": "cache", "decl": decl, "history": hist, "steps": short}, prob)
    disc = cw.flag_discrimination()
    if any(n == 0 for n in disc.values()):
        raise MachineryError("a subtype-kind flag is not discriminated by any asked pair: %r" % disc)
    dc = scratch("c08-cacheobs-")
    cw.write_obs_module(dc)
    timing["cache_extract"] = time.time() - t0
    pool = ThreadPoolExecutor(3)     # at most 3 TLC processes (<= 6 worker threads) next to the table computation
    mc_cfgs = ["MC_SubtypeCache.cfg"] if quick else ["MC_SubtypeCache.cfg", "MC_SubtypeCache_3.cfg", "MC_SubtypeCache_All.cfg"]
    gen_cfgs = ["Gen_SubtypeCache_2.cfg"] if quick else ["Gen_SubtypeCache_2.cfg", "Gen_SubtypeCache_2q.cfg", "Gen_SubtypeCache_3.cfg"]
    mut_cfgs = {"Mut_SubtypeCache_NoPromotions.cfg": "AnswerIsTruth", "Mut_SubtypeCache_NoProper.cfg": "AnswerIsTruth",
                "Mut_SubtypeCache_NoVariance.cfg": "AnswerIsTruth"}
    fut = {}
    for cfg in mc_cfgs:
        fut[cfg] = pool.submit(tlc, "MC_SubtypeCache", cfg, cwd=dc, workers=2, timeout=3000, heap="3g")
    for cfg in gen_cfgs:
        fut[cfg] = pool.submit(tlc, "MC_SubtypeCache", cfg, cwd=dc, workers=2, timeout=3000, coverage=False, heap="3g")
    for cfg in mut_cfgs:
        fut[cfg] = pool.submit(tlc, "MC_SubtypeCache", cfg, cwd=dc, workers=1, timeout=1200, coverage=False, heap="2g")

    # ---- 4. observation tables from the real functions; TLC checks the laws on them
    tb = compute_tables(real, types, item_lists)
    timing["tables"] = time.time() - t0
    # the table is checked in row blocks (one TLC run each; memory stays bounded in the thorough tier)
    nblocks = 1 if quick else 6
    bounds = [(1 + b * N // nblocks, (b + 1) * N // nblocks) for b in range(nblocks)]
    simp_blocks = [list(range(b, len(tb["simp"]), nblocks)) for b in range(nblocks)]

    def law_block(b: int) -> tuple[Any, dict[str, Any]]:
        dl = scratch("c08-obs-")
        maps = write_obs_module(dl, terms, tb, bounds[b], simp_blocks[b])
        return run_laws(dl, 4 if quick else 3, 3000), maps

    viol: list[dict[str, Any]] = []
    drift: list[dict[str, Any]] = []
    samedrift: list[dict[str, Any]] = []
    core_terms: set[int] = set()
    law_states = 0
    law_cov: dict[str, list[int]] = {}
    with ThreadPoolExecutor(1 if quick else 2) as lawpool:
        for b, (rl, maps) in enumerate(lawpool.map(law_block, range(nblocks))):
            lo, hi = bounds[b]
            expect_states = 1 + (hi - lo + 1) * (N + 1) + len(simp_blocks[b])
            if rl.distinct < expect_states or rl.never_fired():
                raise MachineryError("law checker block %d visited %d states (at least %d expected), never fired: %s"
                                     % (b, rl.distinct, expect_states, rl.never_fired()))
            vb = rl.json_lines("VIOL")
            if bool(vb) != bool(rl.violated):
                raise MachineryError("TLC verdict %r but %d violation records" % (rl.violated, len(vb)))
            viol += globalise(vb, maps)
            drift += rl.json_lines("DRIFT")
            samedrift += rl.json_lines("SAMEDRIFT")
            core_terms |= {int(m.group(1)) for l in rl.printed for m in [re.match(r'<<"CORE", (\d+)>>', l)] if m}
            states += rl.distinct; transitions += rl.generated
            law_states += rl.distinct - 1
            for a, (dd, tt) in rl.coverage.items():
                c0 = law_cov.setdefault(a, [0, 0]); c0[0] += dd; c0[1] += tt
    timing["laws_tlc"] = time.time() - t0
    cov["Lattice/laws"] = {"per_action": {a: {"distinct": c0[0], "total": c0[1]} for a, c0 in sorted(law_cov.items())},
                           "never_fired": [], "states": law_states + nblocks, "blocks": nblocks}
    core = len(core_terms)
    if core < 40:
        raise MachineryError("reference relation covers only %d terms" % core)

    # ---- 5. every violation re-confirmed on fresh builds with the real functions, and minimised
    cases = cases_from_viol(viol, terms, tb)
    minimal, unrep, min_evals = confirm_and_minimise(world, real, cases) if cases else ({}, [], 0)
    for k in sorted(minimal):
        info = minimal[k]
        v.violation(k, {"kind": "law", "law": info["law"], "terms": info["terms"], "decl": decl,
                        "observed": info["observed"], "instances_in_this_run": info["instances"],
                        "minimal_instances": info["minimal_instances"], "examples": info["examples"]},
                    "law %s fails on (%s): %s" % (info["law"], " | ".join(info["terms"]), info["observed"]))
    timing["minimise"] = time.time() - t0
    selftest = table_selftest(real, terms, types)
    timing["selftest"] = time.time() - t0

    # ---- 6. cache model: TLC verdicts, specification mutants, replay of every emitted behaviour
    cache_hist = 0
    hits = 0
    conf_problems = 0
    answer_problems = 0
    sample_hist: list[Any] = []
    for cfg in mc_cfgs + gen_cfgs:
        r = fut[cfg].result()
        if r.error:
            raise MachineryError("TLC %s: %s\n%s" % (cfg, r.error, r.out[-800:]))
        for line in r.out.splitlines():
            m = _RE_COV2.match(line)
            if m and m.group(1) not in r.coverage:
                r.coverage[m.group(1)] = (int(m.group(3)), int(m.group(4)))
        if r.violated:
            v.violation("model:SubtypeCache:%s:%s" % (cfg, r.violated), {"kind": "model", "cfg": cfg, "trace": r.trace_text[-4000:]},
                        "SubtypeCache.tla with the tables extracted from the implementation violates %s (%s)" % (r.violated, cfg))
        states += r.distinct; transitions += r.generated
        cov["SubtypeCache/" + cfg] = dict(coverage_summary(r), states=r.distinct, transitions=r.generated)
        if cfg in mc_cfgs and not r.violated and r.never_fired():
            raise MachineryError("actions never fired in %s: %s" % (cfg, r.never_fired()))
        if cfg in gen_cfgs:
            hists = r.json_lines("HIST")
            if len(hists) < 1000:
                raise MachineryError("%s emitted only %d behaviours" % (cfg, len(hists)))
            for hh in hists:
                hist = hh["h"]
                prob, conf = cw.replay(hist)
                cache_hist += 1
                served = [st for i, st in enumerate(hist) if st["a"] == "q" and i > 0 and st["e"] in (set(hist[i - 1]["pos"]) | set(hist[i - 1]["neg"]))]
                hits += bool(served)
                if prob or conf:
                    short = [[st["a"], cw.describe(st["e"]) if st["a"] == "q" else st["info"]] for st in hist]
                    if prob:
                        answer_problems += 1
                        if answer_problems <= 8:
                            v.violation("cache:answer:" + json.dumps(short), {"kind": "cache", "decl": decl, "history": hist, "steps": short}, prob)
                    else:
                        conf_problems += 1
                        if conf_problems <= 3:
                            v.violation("cache:conformance:" + json.dumps(short), {"kind": "cache", "decl": decl, "history": hist, "steps": short},
                                        "type_state does not follow SubtypeCache.tla: " + str(conf))
            if not sample_hist:
                sample_hist.append({"cfg": cfg, "steps": [[st["a"], cw.describe(st["e"]) if st["a"] == "q" else st["info"], st["ans"]] for st in hists[len(hists) // 2]["h"]]})
    muts = {}
    for cfg, inv in mut_cfgs.items():
        r = fut[cfg].result()
        muts[cfg] = r.violated
        if not r.violated:
            raise MachineryError("specification mutant %s not rejected: %s %s" % (cfg, r.violated, r.error))
    pool.shutdown()
    if cache_hist == 0:
        raise MachineryError("no cache behaviour was replayed")
    timing["cache_replay"] = time.time() - t0

    # ---- evidence
    calls = tb["calls"]
    T = tb["types"]
    nontriv_join = sum(1 for i in range(1, N + 1) for j in range(1, N + 1) if tb["join"][i][j] not in (i, j))
    nontriv_meet = sum(1 for i in range(1, N + 1) for j in range(1, N + 1) if tb["meet"][i][j] not in (i, j) and tb["meet"][i][j] > N)
    nontriv_simp = sum(1 for o in tb["simp"] if any(r != o["raw"] for r in o["res"]))
    triples = law_cov.get("PickU", [0, 0])[0]
    coverage = {
        "states": states, "transitions": transitions,
        "traces_validated_against_impl": law_states + cache_hist,
        "law_instances_checked_on_real_observations": law_states,
        "cache_histories_replayed": cache_hist,
        "cache_histories_with_a_memo_hit": hits,
        "terms": N, "terms_from_specification": n_spec_terms, "random_depth2_terms": len(deep),
        "observed_types": tb["M"], "any_free_terms": len(tb["anyfree"]),
        "pairs": N * N, "pruned_triples": triples, "union_item_lists": len(tb["simp"]),
        "real_function_calls": calls,
        "evaluations": sum(calls.values()) + min_evals + cw.fresh_evals + cache_hist,
        "distinct_nontrivial": triples + nontriv_join + nontriv_meet + nontriv_simp + hits,
        "nontrivial_breakdown": {"triples": triples, "joins_not_an_argument": nontriv_join, "meets_new_type": nontriv_meet,
                                 "simplifications_that_changed_the_union": nontriv_simp, "cache_histories_with_hit": hits},
        "rule": "terms: every term of the specification's universe (Gen_Lattice_%s.cfg)%s; all ordered pairs; all triples with "
                "Sub(s,t), Sub(t,u) among Any-free terms; union item lists: %s + all 3/4-subsets of SimpAtoms + seeded random lists, "
                "every permutation; cache: every behaviour TLC emits for %s; non-trivial = triples + joins that are neither argument + "
                "meets that are a new type + simplifications that removed something + cache behaviours with a memo hit"
                % ("Q" if quick else "T", "" if quick else " + %d seeded random depth-2 terms over the clean dimensions" % len(deep),
                   "a seeded sample of %d pairs" % (6000 if quick else 20000), ", ".join(gen_cfgs)),
        "law_violations_listed_by_tlc": len(viol), "minimal_failing_inputs": len(minimal), "not_reproduced": unrep,
        "model_drift": {"reference_relation_core_terms": core, "core_pairs_checked": core * core,
                        "disagreements": [[render(terms[d["s"] - 1]), render(terms[d["t"] - 1]), d["ref"]] for d in drift[:20]],
                        "n_disagreements": len(drift),
                        "is_same_type_vs_mutual_proper": len(samedrift),
                        "cache_conformance_mismatches": conf_problems},
        "cache_histories_with_wrong_answer": answer_problems,
        "cache_model": {"pairs": cw.pair_name, "entries": len(cw.entries), "fresh_evaluations": cw.fresh_evals,
                        "flags_discriminated_by_n_pairs": disc, "spec_mutants_rejected": muts},
        "law_checker_selftest": selftest,
        "builds": world.builds, "type_errors_in_generated_module_ignored": world.ignored_errors,
        "samples": [{"term": render(terms[len(terms) // 3]), "type": str(types[len(terms) // 3])},
                    {"join": [render(terms[1]), render(terms[4]), str(T[tb["join"][2][5]])]},
                    {"cache_behaviour": sample_hist[:1]}],
        "tlc": cov,
        "timing_s": {k: round(x, 1) for k, x in timing.items()},
        "exhaustive": False,
    }
    return v.finish("model_checking", coverage, [
        "types come from a real build of a generated module against the real typeshed (python 3.12 target); "
        "terms live in a generic class scope so that type variables are bound",
        "Any-free = no AnyType anywhere inside and not the bare `type` (subtypes.py treats it as Type[Any]); "
        "transitivity is only demanded on Any-free terms, as the property says",
        "law instances on which the real function raises count as violations of the law (no join / meet exists)",
        "cache behaviours are replayed in one process on the module-global type_state, each from empty caches; "
        "MAX_NEGATIVE_CACHE_* eviction is not reachable within 3 queries",
        "a conformance mismatch between type_state and SubtypeCache.tla is reported as a violation (the model was "
        "validated against the unchanged tree: 0 mismatches)",
    ])


if __name__ == "__main__":
    try:
        sys.exit(main(sys.argv[1:]))
    except MachineryError as e:
        print("MACHINERY FAILURE:", e, file=sys.stderr)
        sys.exit(2)
    except Exception:  # an unexpected failure of the machinery is never a verdict about mypy
        import traceback
        traceback.print_exc()
        print("MACHINERY FAILURE: unexpected failure of the machinery", file=sys.stderr)
        sys.exit(2)
    except Exception:  # a bug of the harness must never look like a verdict (an uncaught exception exits 1)
        import traceback
        traceback.print_exc()
        print("MACHINERY FAILURE: unexpected exception in the driver", file=sys.stderr)
        sys.exit(2)
