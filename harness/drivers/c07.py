"""C07 — parallel checking gives the sequential result under every schedule.

Specification: spec/Parallel.tla (coordinator + N workers + shared store; arbitrary free-worker choice,
batching and reply order).  TLC checks ReadsCommitted / NoPrematureSubmit / ErrorsOnce / AtEnd over every
schedule of the bound and rejects the mutants (reply before commit, done at submit).  Binding:
TLC behaviours (simulation mode) are turned into release policies and replayed on REAL `-n N` builds
(in-process coordinator, real worker subprocesses gated by harness/shim): output and status are
compared with the sequential build of the same files (same parser), every interface reply is checked
against the committed store, the cache left behind is exercised by warm parallel and warm sequential
runs compared with cold runs, and the coordinator's event streams are validated against
Trace_Parallel.tla.
"""
from __future__ import annotations

import json
import os

os.environ["VERIF_NO_ROUNDTRIP"] = "1"  # the record round-trip binding (world._hook_roundtrip) belongs to C02
import random
import shutil
import sys
from concurrent.futures import ProcessPoolExecutor, ThreadPoolExecutor
from typing import Any

from harness.common import MachineryError, SPEC, Verdict, coverage_summary, parse_args, sany, scratch, tlc
from harness import par, world as W
from harness.tracecheck import validate_parallel_traces

PID = "C07"


def policy_from_history(hist: list[dict[str, Any]]) -> dict[str, Any]:
    prio = []
    for e in hist:
        if e["ev"] == "recv":
            for s in e["sccs"]:
                prio.append([e["ph"], s])
    workers = [e["w"] - 1 for e in hist if e["ev"] == "submit"]
    return {"prio": prio, "workers": workers}


def scenario(job: dict[str, Any]) -> dict[str, Any]:
    """cold parallel (policy A) vs sequential; edit; warm parallel (policy B) vs cold sequential; edit; warm sequential vs cold."""
    W.preload()
    root = scratch("c07-")
    src, cache, gate = os.path.join(root, "src"), os.path.join(root, "cache"), os.path.join(root, "gate")
    out: dict[str, Any] = {"runs": [], "violations": [], "job": {k: job[k] for k in ("shape", "n", "variants", "store", "ign", "uw") if k in job}}
    shape, n, store = job["shape"], job["n"], job["store"]
    tick = 1000

    def check(res: dict[str, Any], variant: dict[int, int], what: str, kind: str) -> None:
        ref = par.run_sequential(src, cache_dir=None)
        if res.get("machinery"):
            out["machinery"] = out.get("machinery", 0) + 1
        elif res.get("crash"):
            out["violations"].append({"step": what, "what": "%s: internal error %s" % (what, res["crash"][-600:])})
        elif W.norm(res) != W.norm(ref):
            only_p = sorted(set(res["messages"]) - set(ref["messages"]))[:4]
            only_s = sorted(set(ref["messages"]) - set(res["messages"]))[:4]
            out["violations"].append({"step": what, "blocker": ref["status"] == 2, "what": "%s (%s): status %s vs sequential cold %s; only in this run: %r; only in the sequential build: %r"
                                      % (what, kind, res["status"], ref["status"], only_p, only_s)})
        for cv in res.get("commit_violations", []):
            out["violations"].append({"step": what, "what": "%s: interface reply for %s received before its meta was committed (replied %s, store has %s)"
                                      % (what, cv["mod"], cv["replied"], cv["committed"])})

    variants = job["variants"]
    ign = tuple(job.get("ign", ()))
    uw = bool(job.get("uw"))
    par.write_program(src, shape, variants[0], tick, ign, uw)
    r1 = par.run_parallel(src, cache_dir=cache, n=n, policy=par.Policy(**job["policies"][0]), gate=gate, store=store)
    out["runs"].append({"n": n, "shape": shape, "events": r1["events"], "status": r1["status"], "kind": "cold-parallel"})
    check(r1, variants[0], "cold -n %d" % n, "parallel")
    if len(variants) > 1:
        tick += 100
        par.write_program(src, shape, variants[1], tick, ign, uw)
        r2 = par.run_parallel(src, cache_dir=cache, n=n, policy=par.Policy(**job["policies"][1]), gate=gate, store=store)
        out["runs"].append({"n": n, "shape": shape, "events": r2["events"], "status": r2["status"], "kind": "warm-parallel"})
        check(r2, variants[1], "warm -n %d after edit" % n, "parallel")
    if len(variants) > 2:
        tick += 100
        par.write_program(src, shape, variants[2], tick, ign, uw)
        r3 = par.run_sequential(src, cache_dir=cache, store=store, tick=5000)
        check(r3, variants[2], "warm sequential run on the cache a parallel build left", "sequential-warm")
        # and one more parallel run with no edit at all: everything fresh
        r4 = par.run_parallel(src, cache_dir=cache, n=n, policy=par.Policy(), gate=gate, store=store)
        out["runs"].append({"n": n, "shape": shape, "events": r4["events"], "status": r4["status"], "kind": "fresh-parallel"})
        check(r4, variants[2], "warm -n %d with nothing changed" % n, "parallel")
    shutil.rmtree(root, ignore_errors=True)
    return out


def corpus_parallel_worker(case: dict[str, Any]) -> dict[str, Any]:
    from harness import corpus as C
    W.preload()
    root = scratch("c07c-")
    try:
        r = C.parallel_case(case, root)
    except BaseException as e:  # harness problem with this case: skip it, never a verdict
        r = {"name": case["name"], "steps": 0, "violation": None, "skipped": "harness error %r" % (e,), "nontrivial": False, "machinery": 0}
    shutil.rmtree(root, ignore_errors=True)
    r["file"] = case.get("file", "")
    return r


def main(argv: list[str]) -> int:
    tier, seed, replay = parse_args(argv)
    v = Verdict(PID, tier, seed)
    rnd = random.Random(seed)
    sany(os.path.join(SPEC, "MC_Parallel.tla"))
    sany(os.path.join(SPEC, "Trace_Parallel.tla"))
    cov: dict[str, Any] = {}
    states = transitions = 0
    if tier == "quick":
        mcs = ["MC_Parallel_2_%s_%s.cfg" % (s, k) for s in ("diamond", "chain", "fan") for k in ("cold", "warm")]
    else:
        mcs = ["MC_Parallel_%d_%s_%s.cfg" % (n, s, k) for n in (2, 3) for s in ("diamond", "chain", "fan") for k in ("cold", "warm")]
    muts = [("Mut_Parallel_ReplyBeforeCommit.cfg", "ReadsCommitted"), ("Mut_Parallel_DoneAtSubmit.cfg", "ReadsCommitted")]

    def run_cfg(c: str) -> Any:
        return c, tlc("MC_Parallel", c, workers=4, timeout=3000, heap="6g")

    with ThreadPoolExecutor(4) as ex:
        for c, r in ex.map(run_cfg, mcs + [m for m, _ in muts]):
            if r.error:
                raise MachineryError("TLC %s: %s" % (c, r.error))
            exp = dict(muts).get(c)
            if exp:
                if not r.violated:
                    raise MachineryError("specification mutant %s not rejected: %s" % (c, r.violated))
                cov.setdefault("spec_mutants_rejected", {})[c] = r.violated
                continue
            if r.violated:
                v.violation("model:%s:%s" % (c, r.violated), {"cfg": c, "trace": r.trace_text}, "specification property violated")
            states += r.distinct; transitions += r.generated
            cov[c] = dict(coverage_summary(r), states=r.distinct, transitions=r.generated)
    # ---- behaviours -> policies
    gens = [("diamond", 2), ("fan", 3), ("chain", 2)] if tier == "quick" else [(s, n) for s in ("diamond", "fan", "chain") for n in (2, 3)]
    d = scratch("c07gen-")
    policies: dict[tuple[str, int], list[dict[str, Any]]] = {}
    for shape, n in gens:
        cfgp = os.path.join(d, "Gen_%s_%d.cfg" % (shape, n))
        with open(cfgp, "w") as f:
            f.write('SPECIFICATION Spec\nCONSTANTS\n N = %d\n Shape = "%s"\n StaleKind = "cold"\n ReplyBeforeCommit = FALSE\n DoneAtSubmit = FALSE\nINVARIANT Emit\n' % (n, shape))
        g = tlc("MC_Parallel", cfgp, workers=1, coverage=False, simulate="num=%d" % (60 if tier == "quick" else 400), depth=150, seed=seed + 1, timeout=600)
        if not g.ok:
            raise MachineryError("Gen Parallel: %s %s" % (g.violated, g.error))
        seen = {}
        for hst in g.json_lines("HIST"):
            p = policy_from_history(hst)
            seen[json.dumps(p)] = p
        policies[(shape, n)] = [seen[k] for k in sorted(seen)]
        if len(policies[(shape, n)]) < 10:
            raise MachineryError("too few behaviours emitted for %s/%d" % (shape, n))
    # ---- real runs
    jobs = []
    base_variants = [[{}, {2: 1}, {1: 1}], [{1: 1}, {}, {3: 1}], [{}, {4: 1}, {4: 0, 6: 1}], [{}, {1: 1}, {}], [{2: 1}, {2: 1, 1: 1}, {2: 1}]]
    blocker_variants = [[{}, {2: 2}, {}], [{3: 2}, {}, {1: 1}], [{2: 3, 3: 2}, {2: 3}, {}], [{1: 3}, {1: 3, 6: 2}, {1: 3}]]
    per = 6 if tier == "quick" else 60
    for (shape, n), pols in sorted(policies.items()):
        rnd.shuffle(pols)
        for i in range(min(per, len(pols) // 2)):
            jobs.append({"shape": shape, "n": n, "store": "sqlite" if i % 2 else "fs", "variants": base_variants[i % len(base_variants)],
                         "policies": [pols[2 * i], pols[2 * i + 1]]})
        for i, bv in enumerate(blocker_variants):     # deterministic: blockers in parallel mode
            jobs.append({"shape": shape, "n": n, "store": "fs", "variants": bv, "policies": [pols[0], pols[1]]})
    named = ["impl-first", "iface-first", "reverse", "burst", "burst"]
    for i, name in enumerate(named):
        jobs.append({"shape": ("diamond", "fan", "chain")[i % 3], "n": 3 if i % 2 == 0 else 2, "store": "fs", "variants": base_variants[i % len(base_variants)],
                     "policies": [{"name": name}, {"name": named[(i + 1) % len(named)]}]})
    # a module whose diagnostics are ignored wholesale sits between an interface change and its users (its records still
    # have to carry the indirect dependencies): diamond m4 / fan m6 / chain m3
    for i, (shape, ig, vs) in enumerate([("diamond", [4], [{}, {1: 1}, {1: 0}]), ("diamond", [4, 2], [{1: 1}, {}, {1: 1}]), ("fan", [6], [{}, {1: 1}, {}]),
                                         ("chain", [3], [{}, {1: 1}, {1: 0}]), ("chain", [2, 3], [{1: 1}, {}, {1: 1}])]):
        jobs.append({"shape": shape, "n": 2 + i % 2, "store": "sqlite" if i % 2 else "fs", "variants": vs, "ign": ig, "uw": True,
                     "policies": [{"name": named[i % len(named)]}, {"name": named[(i + 2) % len(named)]}]})
    # the base variants once more with the inferred module-level variables
    for i, name in enumerate(named[:3]):
        jobs.append({"shape": ("fan", "chain", "diamond")[i], "n": 2 + i % 2, "store": "fs", "variants": base_variants[(i + 2) % len(base_variants)], "uw": True,
                     "policies": [{"name": name}, {"name": named[(i + 3) % len(named)]}]})
    if tier == "thorough":
        for n in (1, 4, 6, 8):
            for i, name in enumerate(named):
                jobs.append({"shape": "fan", "n": n, "store": "sqlite" if i % 2 else "fs", "variants": base_variants[i], "policies": [{"name": name}, {"name": ""}]})
    results = []
    with ProcessPoolExecutor(5) as pex:
        for res in pex.map(scenario, jobs, chunksize=1):
            results.append(res)
    # ---- the repository's multi-file check cases: -n 2 (free-running) vs sequential, and the cache left behind
    from harness import corpus as C
    from harness.common import REPO
    pcases = []
    for fn in C.reload_files():
        for c in C.parse_cases(os.path.join(REPO, "test-data", "unit", fn)):
            if any(k.endswith(".py") for k in c["files"]):
                c["file"] = fn
                pcases.append(c)
    if tier == "quick":
        pcases = pcases[::4]
    presults = []
    with ProcessPoolExecutor(6) as pex:
        for res in pex.map(corpus_parallel_worker, pcases, chunksize=2):
            presults.append(res)
    for r in presults:
        if r["violation"]:
            v.violation("corpus-par:%s::%s:%s" % (r["file"], r["name"], r.get("label", "")), {"kind": "corpus parallel", "file": r["file"], "case": r["name"]},
                        "%s %s: %s" % (r["file"], r["name"], r["violation"]))
    nruns = sum(len(r["runs"]) for r in results)
    distinct = {json.dumps([[e["ev"], e.get("w"), e.get("ph"), e["sccs"]] for e in run["events"] if e["ev"] in ("submit", "recv")])
                for r in results for run in r["runs"]}
    for r in results:
        for x in r["violations"]:
            j = r["job"]
            if x.get("blocker"):
                key = "blocker-output:%s" % x["step"].split(" ")[0]
            else:
                key = "sched:" + json.dumps({"job": j, "step": x["step"]}, sort_keys=True)
            v.violation(key, {"job": j, "detail": x}, x["what"])
    tv = validate_parallel_traces([run for r in results for run in r["runs"]])
    for rej in tv["rejected"][:5]:
        v.violation("trace:" + json.dumps(rej["at"]), rej, "coordinator event stream is not a behaviour of Trace_Parallel.tla: " + rej["why"])
    nmach = sum(r.get("machinery", 0) for r in results)
    if nmach:
        v.notes.append("%d runs skipped: worker processes could not be started in time" % nmach)
    if nmach > len(jobs) // 3:
        raise MachineryError("too many runs could not start their workers (%d)" % nmach)
    if nruns == 0 or (tv["validated"] == 0 and not tv["rejected"]):
        raise MachineryError("conformance step did not run")
    coverage = {
        "states": states, "transitions": transitions, "traces_validated_against_impl": tv["validated"],
        "evaluations": nruns, "distinct_nontrivial": len(distinct), "scenarios": len(jobs),
        "corpus_cases_parallel_vs_sequential": sum(1 for r in presults if not r["skipped"]), "corpus_cases_skipped": sum(1 for r in presults if r["skipped"]),
        "corpus_worker_start_failures": sum(r.get("machinery", 0) for r in presults),
        "rule": "policies derived from TLC simulation behaviours of Parallel.tla (reply order + free-worker choice) and three named policies, x shape "
                "(diamond, chain, fan) x N x store; each scenario: cold parallel, edit, warm parallel, edit, warm sequential, all-fresh parallel, "
                "every run compared with a cold sequential build; distinct_nontrivial = distinct real (submit/recv) event sequences observed",
        "samples": [{"job": results[0]["job"], "events": [[e["ev"], e.get("w"), e.get("ph"), e["sccs"]] for e in results[0]["runs"][0]["events"]][:40]}],
        "tlc": cov, "trace_validation": {k: tv[k] for k in ("validated", "states", "events")}, "exhaustive": False,
    }
    return v.finish("model_checking", coverage, [
        "in-process coordinator (build.build, num_workers=N) with real worker subprocesses and the test fixtures; native parser and "
        "local_partial_types on both sides (parallel mode forces them)",
        "schedules are controlled by gating worker replies; batch composition is whatever the real size hints give",
        "cross-file message order is not compared (per-file sequences and exit status are)",
    ])


if __name__ == "__main__":
    try:
        sys.exit(main(sys.argv[1:]))
    except MachineryError as e:
        print("MACHINERY FAILURE:", e, file=sys.stderr)
        sys.exit(2)
    except Exception:  # an unexpected failure of the machinery is never a verdict about mypy
        import traceback
        traceback.print_exc()
        print("MACHINERY FAILURE: unexpected failure of the machinery", file=sys.stderr)
        sys.exit(2)
