"""Shared machinery: scratch dirs, TLC runner/parser, evidence writer, findings, verdicts.

Exit codes used by every check: 0 property held on everything explored; 1 violation (a line
`VIOLATION property=<id> replay=<path>` was printed); 2 machinery failure (never on the
unchanged tree).
"""
from __future__ import annotations

import atexit
import hashlib
import json
import os
import re
import shutil
import subprocess
import sys
import tempfile
import time
from typing import Any

VERIF = os.path.dirname(os.path.dirname(os.path.abspath(__file__)))
REPO = os.environ.get("VERIF_REPO", "/repo")
SPEC = os.path.join(VERIF, "spec")
PY = os.environ.get("VERIF_PYTHON", "/venv/bin/python")
TLA_JAR = "/opt/veriftools/tla/tla2tools.jar"
TLA_CP = TLA_JAR + ":/opt/veriftools/tla/CommunityModules-deps.jar"


class MachineryError(Exception):
    pass


# ---------------------------------------------------------------------------- scratch
_scratch_dirs: list[str] = []


def scratch(prefix: str = "verif-") -> str:
    base = os.environ.get("VERIF_SCRATCH") or tempfile.gettempdir()
    os.makedirs(base, exist_ok=True)
    d = tempfile.mkdtemp(prefix=prefix, dir=base)
    _scratch_dirs.append(d)
    return d


def _cleanup() -> None:
    if os.environ.get("VERIF_KEEP_SCRATCH"):
        return
    for d in _scratch_dirs:
        shutil.rmtree(d, ignore_errors=True)


atexit.register(_cleanup)


def repo_env(extra: dict[str, str] | None = None) -> dict[str, str]:
    """Environment for subprocesses that import mypy from /repo's working tree."""
    env = dict(os.environ)
    env["PYTHONPATH"] = REPO
    env["PYTHONDONTWRITEBYTECODE"] = "1"
    env.setdefault("PYTHONHASHSEED", "0")
    env.pop("MYPYPATH", None)
    if extra:
        env.update(extra)
    return env


# ---------------------------------------------------------------------------- TLC
class TLCResult:
    def __init__(self) -> None:
        self.rc = -1
        self.out = ""
        self.generated = 0
        self.distinct = 0
        self.depth = 0
        self.violated: str | None = None  # invariant / property name, or "deadlock", "assert"
        self.error: str | None = None  # any other TLC error text
        self.printed: list[str] = []  # raw text of PrintT lines
        self.coverage: dict[str, tuple[int, int]] = {}  # action -> (distinct, total)
        self.wall = 0.0
        self.trace_text = ""

    @property
    def ok(self) -> bool:
        return self.violated is None and self.error is None and self.rc == 0

    def json_lines(self, tag: str) -> list[Any]:
        """Values printed by PrintT(<<tag, ToJson(x)>>)."""
        res = []
        pre = '<<"%s", "' % tag
        for line in self.printed:
            if line.startswith(pre) and line.endswith('">>'):
                body = line[len(pre):-3]
                body = body.replace('\\"', '"').replace("\\\\", "\\")
                res.append(json.loads(body))
        return res

    def never_fired(self) -> list[str]:
        return sorted(a for a, (d, t) in self.coverage.items() if t == 0)


_RE_STATES = re.compile(r"(\d+) states generated, (\d+) distinct states found, (\d+) states left")
_RE_DEPTH = re.compile(r"The depth of the complete state graph search is (\d+)")
_RE_COV = re.compile(r"^<(\w+) line \d+, col \d+ to line \d+, col \d+ of module (\w+)>: (\d+):(\d+)")
_RE_INV = re.compile(r"Error: Invariant (\S+) is violated")
_RE_PROP = re.compile(r"Error: (?:Action|Temporal) property (\S+) is violated|Error: Action property (.*) is violated")


def tlc(
    module: str,
    cfg: str,
    *,
    cwd: str | None = None,
    workers: int | str = "auto",
    timeout: int = 900,
    coverage: bool = True,
    deadlock: bool = False,
    simulate: str | None = None,
    depth: int | None = None,
    seed: int | None = None,
    env_extra: dict[str, str] | None = None,
    java_props: list[str] | None = None,
    extra: list[str] | None = None,
    heap: str = "4g",
) -> TLCResult:
    """Run TLC on spec/<module>.tla with config file `cfg` (path or name under spec/)."""
    cwd = cwd or SPEC
    meta = scratch("tlcmeta-")
    cmd = ["java", "-XX:+UseParallelGC", "-Xmx" + heap]
    for p in java_props or []:
        cmd.append("-D" + p)
    cmd += ["-cp", TLA_CP, "tlc2.TLC", "-metadir", meta, "-noGenerateSpecTE"]
    cmd += ["-workers", str(workers)]
    if coverage and not simulate:
        cmd += ["-coverage", "1"]
    if not deadlock:
        cmd += ["-deadlock"]  # -deadlock DISABLES deadlock checking
    if simulate:
        cmd += ["-simulate", simulate]
    if depth is not None:
        cmd += ["-depth", str(depth)]
    if seed is not None:
        cmd += ["-seed", str(seed)]
    cmd += ["-config", cfg]
    cmd += extra or []
    cmd += [module]
    env = dict(os.environ)
    if env_extra:
        env.update(env_extra)
    r = TLCResult()
    t0 = time.time()
    try:
        p = subprocess.run(cmd, cwd=cwd, env=env, capture_output=True, text=True, timeout=timeout)
    except subprocess.TimeoutExpired as e:
        r.error = "timeout after %ds" % timeout
        r.out = (e.stdout or b"").decode() if isinstance(e.stdout, bytes) else (e.stdout or "")
        subprocess.run(["pkill", "-f", meta], capture_output=True)
        shutil.rmtree(meta, ignore_errors=True)
        return r
    r.wall = time.time() - t0
    r.rc = p.returncode
    r.out = p.stdout + p.stderr
    shutil.rmtree(meta, ignore_errors=True)
    in_trace = False
    for line in p.stdout.splitlines():
        m = _RE_STATES.search(line)
        if m:
            r.generated, r.distinct = int(m.group(1)), int(m.group(2))
        m = _RE_DEPTH.search(line)
        if m:
            r.depth = int(m.group(1))
        m = _RE_COV.match(line)
        if m:
            name = m.group(1)
            d, t = int(m.group(3)), int(m.group(4))
            od, ot = r.coverage.get(name, (0, 0))
            r.coverage[name] = (od + d, ot + t)
        m = _RE_INV.search(line)
        if m:
            r.violated = m.group(1)
            in_trace = True
        elif line.startswith("Error: Action property") or line.startswith("Error: Temporal properties"):
            r.violated = line[len("Error: "):]
            in_trace = True
        elif line.startswith("Error: Deadlock reached"):
            r.violated = "deadlock"
            in_trace = True
        elif line.startswith("Error:") and r.violated is None and r.error is None:
            if "The behavior up to this point" not in line:
                r.error = line
        if line.startswith("<<"):
            r.printed.append(line.strip())
        if in_trace:
            r.trace_text += line + "\n"
    if r.rc != 0 and r.violated is None and r.error is None:
        r.error = "TLC exit %d: %s" % (r.rc, (p.stdout + p.stderr)[-800:])
    return r


def sany(module_path: str) -> None:
    p = subprocess.run(
        ["java", "-cp", TLA_CP, "tla2sany.SANY", os.path.basename(module_path)],
        cwd=os.path.dirname(module_path), capture_output=True, text=True, timeout=120,
    )
    if p.returncode != 0 or "Semantic errors" in p.stdout or "***Parse Error***" in p.stdout or "Fatal errors" in p.stdout:
        raise MachineryError("SANY rejected %s:\n%s" % (module_path, p.stdout[-2000:]))


def tla_value(x: Any) -> str:
    """Python value -> TLA+ literal."""
    if isinstance(x, bool):
        return "TRUE" if x else "FALSE"
    if isinstance(x, int):
        return str(x)
    if isinstance(x, str):
        return '"%s"' % x.replace("\\", "\\\\").replace('"', '\\"')
    if isinstance(x, (list, tuple)):
        return "<<" + ", ".join(tla_value(i) for i in x) + ">>"
    if isinstance(x, (set, frozenset)):
        return "{" + ", ".join(sorted(tla_value(i) for i in x)) + "}"
    if isinstance(x, dict):
        if not x:
            return "<<>>"
        if all(isinstance(k, str) and re.fullmatch(r"[A-Za-z_][A-Za-z0-9_]*", k) for k in x):
            return "[" + ", ".join("%s |-> %s" % (k, tla_value(v)) for k, v in x.items()) + "]"
        return "(" + " @@ ".join("%s :> %s" % (tla_value(k), tla_value(v)) for k, v in x.items()) + ")"
    raise TypeError(repr(x))


# ---------------------------------------------------------------------------- findings
_FINDINGS_PATH = os.path.join(VERIF, "known_findings.json")


def load_findings(pid: str) -> dict[str, dict[str, Any]]:
    """Known (unrepaired) findings of property pid, keyed by their identifying key."""
    import glob
    res: dict[str, dict[str, Any]] = {}
    for path in [_FINDINGS_PATH] + sorted(glob.glob(os.path.join(VERIF, "findings.d", "*.json"))):
        try:
            with open(path) as f:
                data = json.load(f)
        except FileNotFoundError:
            continue
        for e in data.get("known", []):
            if e["property"] == pid:
                res[e["key"]] = e
    return res


# ---------------------------------------------------------------------------- verdicts
class Verdict:
    """Collects violations / known findings for one check run and produces exit status."""

    def __init__(self, pid: str, tier: str, seed: int) -> None:
        self.pid, self.tier, self.seed = pid, tier, seed
        self.t0 = time.time()
        self.known = load_findings(pid)
        self.violations: list[str] = []
        self.known_hit: dict[str, int] = {}
        self.notes: list[str] = []

    def violation(self, key: str, replay: Any, what: str = "") -> bool:
        """Report a disagreement identified by `key`. Returns True when it is a new violation."""
        if key in self.known:
            self.known_hit[key] = self.known_hit.get(key, 0) + 1
            return False
        if key in [k for k in self.violations]:
            return True
        d = os.path.join(VERIF, "replays", self.pid)
        os.makedirs(d, exist_ok=True)
        h = hashlib.sha1(key.encode()).hexdigest()[:12]
        path = os.path.join(d, h + ".json")
        with open(path, "w") as f:
            json.dump({"property": self.pid, "key": key, "what": what, "replay": replay}, f, indent=1, default=str)
        self.violations.append(key)
        print("VIOLATION property=%s replay=%s" % (self.pid, path), flush=True)
        if what:
            print("  " + what[:1000], flush=True)
        return True

    def finish(self, level: str, coverage: dict[str, Any], assumptions: list[str]) -> int:
        for k, n in sorted(self.known_hit.items()):
            print("KNOWN-FINDING: property=%s %s (%s; met %d times)" % (self.pid, k, self.known[k].get("what", ""), n))
        coverage = dict(coverage)
        coverage.setdefault("known_findings_met", sorted(self.known_hit))
        if self.notes:
            coverage.setdefault("notes", self.notes)
        write_evidence(self.pid, self.tier, self.seed, level, coverage, assumptions,
                       time.time() - self.t0, len(self.violations))
        return 1 if self.violations else 0


def write_evidence(pid: str, tier: str, seed: int, level: str, coverage: dict[str, Any],
                   assumptions: list[str], wall_s: float, violations: int) -> None:
    ev = {
        "property_id": pid, "tier": tier, "seed": seed, "level": level,
        "coverage": coverage, "assumptions": assumptions,
        "wall_s": round(wall_s, 2), "violations": violations,
    }
    os.makedirs(os.path.join(VERIF, "evidence"), exist_ok=True)
    path = os.path.join(VERIF, "evidence", pid + ".json")
    if os.path.realpath(os.environ.get("VERIF_REPO", "/repo")) != "/repo":
        # a development run against another tree (a seeded change): never overwrite the evidence of /repo
        path = os.path.join(VERIF, "evidence", pid + ".seedrun")
    with open(path, "w") as f:
        json.dump(ev, f, indent=1, default=str)
        f.write("\n")
    # validate with the tooling venv's jsonschema when it is there
    schema = "/root/.vp/EVIDENCE.schema.json"
    if os.path.exists(schema) and shutil.which("python3-vt"):
        p = subprocess.run(["python3-vt", "-c",
                            "import json,sys,jsonschema; jsonschema.validate(json.load(open(sys.argv[1])), json.load(open(sys.argv[2])))",
                            path, schema], capture_output=True, text=True)
        if p.returncode != 0:
            raise MachineryError("evidence file does not validate: " + p.stderr[-1500:])


def parse_args(argv: list[str]) -> tuple[str, int, str | None]:
    tier = os.environ.get("VERIF_TIER", "quick")
    replay = None
    i = 0
    while i < len(argv):
        if argv[i] == "--tier":
            tier = argv[i + 1]; i += 2
        elif argv[i] == "--replay":
            replay = argv[i + 1]; i += 2
        else:
            raise SystemExit("unknown argument " + argv[i])
    seed = int(os.environ.get("VERIF_SEED", "0") or 0)
    return tier, seed, replay


def coverage_summary(r: TLCResult) -> dict[str, Any]:
    return {"per_action": {a: {"distinct": d, "total": t} for a, (d, t) in sorted(r.coverage.items())},
            "never_fired": r.never_fired()}
