"""The repository's own multi-step incremental scenarios (test-data/unit/check-incremental.test and
check-serialize.test) run through the recording driver: their EXPECTED OUTPUTS ARE IGNORED; every step's
warm run is compared with a cold run on the same files and options (C02), and the recorded store traces
are validated against Trace_Incremental.tla."""
from __future__ import annotations

import os
import re
import shutil
from typing import Any

from harness.common import REPO
from harness import world as W

_SEC = re.compile(r"^\[(\w+)(?: +([^\]]+))?\]\s*$")


def parse_cases(path: str) -> list[dict[str, Any]]:
    cases: list[dict[str, Any]] = []
    cur: dict[str, Any] | None = None
    sec: list[str] | None = None
    with open(path, encoding="utf8") as f:
        for raw in f:
            line = raw.rstrip("\n")
            if line.startswith("--") and not line.startswith("---"):
                continue
            m = _SEC.match(line)
            if m and m.group(1) == "case":
                cur = {"name": m.group(2), "main": [], "files": {}, "deletes": [], "builtins": None, "typing": None, "skip": None}
                cases.append(cur)
                sec = cur["main"]
                continue
            if cur is None:
                continue
            if m:
                kind, arg = m.group(1), (m.group(2) or "").strip()
                if kind == "file":
                    sec = cur["files"].setdefault(arg, [])
                elif kind == "delete":
                    cur["deletes"].append(arg); sec = []
                elif kind == "builtins":
                    cur["builtins"] = arg; sec = []
                elif kind == "typing":
                    cur["typing"] = arg; sec = []
                elif kind in ("out", "rechecked", "stale") or re.match(r"(out|rechecked|stale)\d+$", kind):
                    sec = []
                else:
                    sec = []
                continue
            if sec is not None:
                sec.append(line.replace("\\\\", "\\") if False else line)
    for c in cases:
        c["main"] = "\n".join(c["main"]) + "\n"
        c["files"] = {k: "\n".join(v) + "\n" for k, v in c["files"].items()}
    return cases


def steps_of(case: dict[str, Any]) -> int:
    n = 2
    for k in list(case["files"]) + case["deletes"]:
        m = re.search(r"\.(\d+)$", k)
        if m:
            n = max(n, int(m.group(1)))
    return n


def states_of(case: dict[str, Any]) -> list[dict[str, str]]:
    """File contents (path -> text) of every step of a multi-step case; step k = base + all .2 .. .k changes."""
    nsteps = steps_of(case)
    cur: dict[str, str] = {"main": case["main"]}
    for k, v in case["files"].items():
        if not re.search(r"\.\d+$", k):
            cur[k] = v
    states = [dict(cur)]
    for step in range(2, nsteps + 1):
        for k, v in case["files"].items():
            m = re.search(r"^(.*)\.(\d+)$", k)
            if m and int(m.group(2)) == step:
                cur[m.group(1)] = v
        for k in case["deletes"]:
            m = re.search(r"^(.*)\.(\d+)$", k)
            if m and int(m.group(2)) == step:
                cur.pop(m.group(1), None)
        states.append(dict(cur))
    return states


def run_case(case: dict[str, Any], root: str, store: str, fmt: str, order: str = "forward") -> dict[str, Any]:
    """Returns {'steps': n, 'violation': None|str, 'traces': [...], 'skipped': reason|None}.
    order: 'forward' = the case's own steps 1..n; 'back' = 1..n then n-1..1 (every edit undone again: histories the
    repository's suite does not contain); 'reverse' = n..1."""
    out: dict[str, Any] = {"name": case["name"], "steps": 0, "violation": None, "traces": [], "skipped": None, "nontrivial": False}
    text = case["main"]
    if case["name"].endswith(("-skip", "-xfail", "-posix", "-windows")) or "--bazel" in text or "--skip-cache-mtime-checks" in text or "--skip-version-check" in text:
        # cases the repository itself skips / expects to fail, and modes that trust the cache by design
        out["skipped"] = "skipped by the repository / cache-trusting mode"
        return out
    if "plugin" in text or any("plugin" in k for k in case["files"]) or "# cmd" in text and "-m" not in text:
        out["skipped"] = "plugins / unsupported cmd"
        return out
    src, cache = os.path.join(root, "src"), os.path.join(root, "cache")
    os.makedirs(src, exist_ok=True)
    for fx, name in ((case["builtins"], "builtins.pyi"), (case["typing"], "typing.pyi")):
        if fx:
            shutil.copy(os.path.join(REPO, "test-data", "unit", fx), os.path.join(src, name))
    tick = 1000
    states = states_of(case)
    nsteps = len(states)
    seq = list(range(1, nsteps + 1))
    if order == "back":
        seq = seq + seq[-2::-1]
    elif order == "reverse":
        seq = seq[::-1]
    on_disk: dict[str, str] = {}

    def put(rel: str, txt: str) -> None:
        nonlocal tick
        p = os.path.join(src, rel)
        os.makedirs(os.path.dirname(p) or src, exist_ok=True)
        with open(p, "w", encoding="utf8") as f:
            f.write(txt)
        tick += 1
        t = 1_000_000 + tick * 10
        os.utime(p, (t, t))

    st_tick = 0
    for pos, step in enumerate(seq):
        target = states[step - 1]
        for k in sorted(set(on_disk) - set(target)):
            if os.path.exists(os.path.join(src, k)):
                os.unlink(os.path.join(src, k))
            del on_disk[k]
        for k, v in target.items():
            if on_disk.get(k) != v:
                put(k, v)
                on_disk[k] = v
        flags = re.search(r"# flags: (.*)$", text, flags=re.M)
        f2 = re.search(r"# flags%d: (.*)$" % step, text, flags=re.M) if step > 1 else None
        flag_list = [x for x in ((f2 or flags).group(1).split() if (f2 or flags) else []) if x not in ("-v", "-vv", "--verbose")]
        flag_list += ["--no-site-packages", "--no-error-summary"]
        if any(x.startswith("--cache-dir") or x.startswith("--config-file") or x in ("--no-incremental",) for x in flag_list):
            out["skipped"] = "flags move the cache / config"
            return out
        cmd = re.search(r"# cmd: mypy (.*)$", text, flags=re.M)
        c2 = re.search(r"# cmd%d: mypy (.*)$" % step, text, flags=re.M) if step > 1 else None
        cmd = c2 or cmd
        if cmd:
            toks = cmd.group(1).split()
            sources: list[tuple[Any, str]] = []
            i = 0
            while i < len(toks):
                if toks[i] == "-m" and i + 1 < len(toks):
                    sources.append((None, toks[i + 1])); i += 2
                else:
                    out["skipped"] = "unsupported cmd " + cmd.group(1)
                    return out
        else:
            sources = [("main", "__main__")]
        kw = dict(sources=sources, user_mods="*", extra_opts={"cli_args_nosrc": flag_list})
        warm = W.run_build(src, cache_dir=cache, store=store, fmt=fmt, tick=st_tick, **kw)
        st_tick = warm["tick"]
        cold = W.run_build(src, cache_dir=None, record=False, **kw)
        out["steps"] += 1
        out["traces"].append(warm["trace"])
        if cold.get("crash") or cold["status"] == 3:
            out["skipped"] = "harness cannot run this case cold: " + (cold.get("crash") or "")[-200:]
            return out
        if warm.get("crash") or W.norm(warm) != W.norm(cold):
            out["violation"] = "step %d (position %d of %s): warm status %s %r ; cold status %s %r %s" % (
                step, pos + 1, seq, warm["status"], warm["messages"][:4], cold["status"], cold["messages"][:4], (warm.get("crash") or "")[-300:])
            out["at"] = seq[: pos + 1]
            return out
        if pos > 0 and any(e["ev"] == "fresh" for e in warm["trace"]) and any(e["ev"] == "stale" for e in warm["trace"]):
            out["nontrivial"] = True
    return out


# ------------------------------------------------------------------------------------------------
# Corpus-wide reload: EVERY single-step case of test-data/unit/check-*.test is a program whose
# diagnostics must survive the cache: (R0) cache-less run = (R1) run that writes the cache = (R2) run with
# nothing edited (every module fresh: diagnostics replayed from meta_ex) = (R3) run after a
# semantically neutral edit of the main file (main re-analysed against dependencies DESERIALISED from
# the cache: data records, fixup) = (R4, thorough) run after a neutral edit of every other module.
# Expected outputs of the cases are ignored; the oracle is R0.
RELOAD_EXCLUDE = ("check-incremental.test", "check-serialize.test", "check-modules-case.test", "check-reports.test",
                  "check-custom-plugin.test", "check-modules-fast.test")


def reload_files() -> list[str]:
    d = os.path.join(REPO, "test-data", "unit")
    return sorted(f for f in os.listdir(d) if f.startswith("check-") and f.endswith(".test") and f not in RELOAD_EXCLUDE)


def reload_case(case: dict[str, Any], root: str, store: str, fmt: str, deep: bool = False) -> dict[str, Any]:
    out: dict[str, Any] = {"name": case["name"], "steps": 0, "violation": None, "traces": [], "skipped": None, "nontrivial": False}
    text = case["main"]
    if case["name"].endswith(("-skip", "-xfail", "-posix", "-windows")) or "--bazel" in text or "--skip-cache-mtime-checks" in text \
            or "--skip-version-check" in text or "# cmd" in text or "plugin" in text or any("plugin" in k for k in case["files"]):
        out["skipped"] = "skipped by the repository / unsupported"
        return out
    if any(re.search(r"\.\d+$", k) for k in list(case["files"]) + case["deletes"]):
        out["skipped"] = "multi-step case"
        return out
    flags = re.search(r"# flags: (.*)$", text, flags=re.M)
    flag_list = [x for x in (flags.group(1).split() if flags else []) if x not in ("-v", "-vv", "--verbose")]
    flag_list += ["--no-site-packages", "--no-error-summary"]
    if any(x.startswith(("--cache-dir", "--config-file", "--no-incremental", "--incremental", "--sqlite", "--no-sqlite",
                         "--cache-fine", "--num-workers", "-n", "--junit", "--shadow-file")) or x.endswith("-report") for x in flag_list):
        out["skipped"] = "flags move the cache / config"
        return out
    src, cache = os.path.join(root, "src"), os.path.join(root, "cache")
    os.makedirs(src, exist_ok=True)
    for fx, name in ((case["builtins"], "builtins.pyi"), (case["typing"], "typing.pyi")):
        if fx:
            shutil.copy(os.path.join(REPO, "test-data", "unit", fx), os.path.join(src, name))
    tick = 1000

    def put(rel: str, txt: str) -> None:
        nonlocal tick
        p = os.path.join(src, rel)
        os.makedirs(os.path.dirname(p) or src, exist_ok=True)
        with open(p, "w", encoding="utf8") as f:
            f.write(txt)
        tick += 1
        t = 1_000_000 + tick * 10
        os.utime(p, (t, t))

    put("main", text)
    for k, v in case["files"].items():
        put(k, v)
    kw = dict(sources=[("main", "__main__")], user_mods="*", extra_opts={"cli_args_nosrc": flag_list})
    r0 = W.run_build(src, cache_dir=None, record=False, **kw)
    if r0.get("crash") or r0["status"] in (3, 4):
        out["skipped"] = "harness cannot run this case cold: " + (r0.get("crash") or "")[-200:]
        return out
    st_tick = 0

    def step(label: str) -> bool:
        nonlocal st_tick
        w = W.run_build(src, cache_dir=cache, store=store, fmt=fmt, tick=st_tick, **kw)
        st_tick = w["tick"]
        out["steps"] += 1
        out["traces"].append(w["trace"])
        if any(e["ev"] == "fresh" for e in w["trace"]) and any(e["ev"] == "stale" for e in w["trace"]):
            out["nontrivial"] = True
        if w.get("crash") or W.norm(w) != W.norm(r0):
            wm, cm = set(w["messages"]), set(r0["messages"])
            out["violation"] = "%s: status %s vs cold %s; only warm %r ; only cold %r %s" % (
                label, w["status"], r0["status"], sorted(wm - cm)[:3], sorted(cm - wm)[:3], (w.get("crash") or "")[-300:])
            out["label"] = label
            return False
        return True

    if not step("write"):
        return out
    if not step("replay"):
        return out
    put("main", text + ("" if text.endswith("\n") else "\n") + "# neutral edit\n")
    # the oracle for the edited text is a cold run on it (a trailing comment changes nothing, but be exact)
    r0 = W.run_build(src, cache_dir=None, record=False, **kw)
    if not step("reload-deps"):
        return out
    if deep and case["files"]:
        for k, v in case["files"].items():
            if k.endswith((".py", ".pyi")):
                put(k, v + ("" if v.endswith("\n") else "\n") + "# neutral edit\n")
        r0 = W.run_build(src, cache_dir=None, record=False, **kw)
        if not step("reload-main"):
            return out
    return out


# A program in which every field of CacheMeta / CacheMetaEx has a non-default value in some module (ignored import
# lines with and without codes, suppressed dependencies, dependencies of three priorities, indirect dependencies,
# cached errors with notes, a module whose errors are ignored wholesale): run through reload_case in all four
# store x format configurations so that the record round trip (world._hook_roundtrip) sees every field both ways.
FIELD_CASE: dict[str, Any] = {
    "name": "verifFieldWorld", "builtins": None, "typing": None, "deletes": [], "skip": None,
    "main": """# flags: --show-error-codes --warn-unused-ignores
from typing import TYPE_CHECKING
import a
import missing1  # type: ignore
import missing2  # type: ignore[import-not-found]
from b import nothing  # type: ignore[attr-defined]
import missing3
if TYPE_CHECKING:
    import d
def g() -> None:
    import c
    reveal_type(a.x)
    reveal_type(b_f())
from b import f as b_f
y: int = a.x
z = a.mk().attr
""",
    "files": {
        "a.py": "import e\nx: str = ''\ndef mk() -> 'e.E':\n    return e.E()\n",
        "b.py": "import a\ndef f() -> int:\n    return a.x  # type: ignore[return-value]\nimport missing4  # type: ignore\n",
        "c.py": "# mypy: ignore-errors\nx: int = ''\n",
        "d.py": "import a  # type: ignore[misc]\nv = 1 + ''\n",
        "e.py": "class E:\n    attr: int = 0\n    def m(self) -> None:\n        return 1\n",
    },
}


# ------------------------------------------------------------------------------------------------
# Parallel vs sequential over the corpus (C07): every multi-file single-step case of check-*.test is built with
# `-n 2` (free-running schedule) and sequentially with the same (native) parser; the diagnostics must agree, and a
# sequential warm run on the cache the parallel build left (after a neutral edit of main) must agree with a cold run.
ONLY_ONCE_NOTE = "note: See https://mypy.readthedocs.io/en/stable/running_mypy.html#missing-imports"


def _norm_par(res: dict[str, Any]) -> tuple[Any, ...]:
    """norm(), with the only_once missing-imports note made location-free: which import error it follows depends on
    the processing order, a known finding recorded under C02 / C10, not a statement about parallel builds."""
    msgs = [(ONLY_ONCE_NOTE if ONLY_ONCE_NOTE in m else m) for m in res["messages"]]
    per: dict[str, list[str]] = {}
    for m in msgs:
        per.setdefault(m.split(":", 1)[0], []).append(m)
    # per file as a multiset: within an import cycle the two builds may report a file's messages in another order
    return (res["status"], tuple(sorted((f, tuple(sorted(v))) for f, v in per.items())))


def parallel_case(case: dict[str, Any], root: str, n: int = 2) -> dict[str, Any]:
    from harness import par
    out: dict[str, Any] = {"name": case["name"], "steps": 0, "violation": None, "skipped": None, "nontrivial": False, "machinery": 0}
    text = case["main"]
    pyfiles = [k for k in case["files"] if k.endswith(".py")]
    if len(pyfiles) < 1:
        out["skipped"] = "single module"
        return out
    if case["name"].endswith(("-skip", "-xfail", "-posix", "-windows", "_no_parallel")) or "# cmd" in text or "plugin" in text or any("plugin" in k for k in case["files"]) \
            or any(re.search(r"\.\d+$", k) for k in list(case["files"]) + case["deletes"]):
        out["skipped"] = "skipped by the repository / unsupported / multi-step"
        return out
    flags = re.search(r"# flags: (.*)$", text, flags=re.M)
    flag_list = [x for x in (flags.group(1).split() if flags else []) if x not in ("-v", "-vv", "--verbose")]
    flag_list += ["--no-site-packages", "--no-error-summary"]
    if any(x.startswith(("--cache-dir", "--config-file", "--no-incremental", "--incremental", "--sqlite", "--no-sqlite", "--cache-fine", "--num-workers",
                         "-n", "--junit", "--shadow-file", "--no-native-parser", "--bazel", "--skip")) or x.endswith("-report") for x in flag_list):
        out["skipped"] = "flags move the cache / config / parser"
        return out
    src, cache = os.path.join(root, "src"), os.path.join(root, "cache")
    os.makedirs(src, exist_ok=True)
    for fx, name in ((case["builtins"], "builtins.pyi"), (case["typing"], "typing.pyi")):
        if fx:
            shutil.copy(os.path.join(REPO, "test-data", "unit", fx), os.path.join(src, name))
    tick = 1000

    def put(rel: str, txt: str) -> None:
        nonlocal tick
        p = os.path.join(src, rel)
        os.makedirs(os.path.dirname(p) or src, exist_ok=True)
        with open(p, "w", encoding="utf8") as f:
            f.write(txt)
        tick += 1
        t = 1_000_000 + tick * 10
        os.utime(p, (t, t))

    put("main", text)
    for k, v in case["files"].items():
        put(k, v)
    sources = [("main", "__main__")]
    seq_kw = dict(sources=sources, user_mods="*", record=False, extra_opts={"cli_args_nosrc": flag_list, "post_set": {"native_parser": True, "local_partial_types": True}})
    ref = W.run_build(src, cache_dir=None, **seq_kw)
    if ref.get("crash") or ref["status"] in (3, 4):
        out["skipped"] = "harness cannot run this case sequentially with the native parser: " + (ref.get("crash") or "")[-200:]
        return out
    p = par.run_parallel_flags(src, flags=flag_list, sources=sources, n=n, cache_dir=cache)
    out["steps"] += 1
    if p.get("machinery"):
        out["machinery"] += 1
        out["skipped"] = "workers could not be started"
        return out
    if p.get("crash") or _norm_par(p) != _norm_par(ref):
        pm, rm = set(p["messages"]), set(ref["messages"])
        out["violation"] = "-n %d: status %s vs sequential %s; only parallel %r ; only sequential %r %s" % (
            n, p["status"], ref["status"], sorted(pm - rm)[:3], sorted(rm - pm)[:3], (p.get("crash") or "")[-300:])
        out["label"] = "parallel"
        return out
    if p["messages"]:
        out["nontrivial"] = True
    # the cache the parallel build left: main re-analysed against it, sequentially
    put("main", text + ("" if text.endswith("\n") else "\n") + "# neutral edit\n")
    ref2 = W.run_build(src, cache_dir=None, **seq_kw)
    w = W.run_build(src, cache_dir=cache, **seq_kw)
    out["steps"] += 1
    if w.get("crash") or _norm_par(w) != _norm_par(ref2):
        wm, rm = set(w["messages"]), set(ref2["messages"])
        out["violation"] = "sequential warm run on the cache a -n %d build left: status %s vs cold %s; only warm %r ; only cold %r %s" % (
            n, w["status"], ref2["status"], sorted(wm - rm)[:3], sorted(rm - wm)[:3], (w.get("crash") or "")[-300:])
        out["label"] = "warm-after-parallel"
    return out


# ------------------------------------------------------------------------------------------------
# Outputs of a single-step case for the determinism check (C10): the cold build (writing a cache) and the warm
# build on it, messages in the order printed. Run by harness/c10_runner.py inside an interpreter started with a given
# PYTHONHASHSEED (the forked build processes inherit the seed).
def outputs_case(case: dict[str, Any], root: str) -> dict[str, Any]:
    out: dict[str, Any] = {"name": case["name"], "file": case.get("file", ""), "skipped": None}
    text = case["main"]
    if case["name"].endswith(("-skip", "-xfail", "-posix", "-windows")) or "# cmd" in text or "plugin" in text or any("plugin" in k for k in case["files"]) \
            or any(re.search(r"\.\d+$", k) for k in list(case["files"]) + case["deletes"]):
        out["skipped"] = "skipped by the repository / unsupported / multi-step"
        return out
    flags = re.search(r"# flags: (.*)$", text, flags=re.M)
    flag_list = [x for x in (flags.group(1).split() if flags else []) if x not in ("-v", "-vv", "--verbose")]
    flag_list += ["--no-site-packages", "--no-error-summary"]
    if any(x.startswith(("--cache-dir", "--config-file", "--no-incremental", "--incremental", "--sqlite", "--no-sqlite", "--cache-fine", "--num-workers",
                         "-n", "--junit", "--shadow-file", "--bazel", "--skip")) or x.endswith("-report") for x in flag_list):
        out["skipped"] = "flags move the cache / config"
        return out
    src, cache = os.path.join(root, "src"), os.path.join(root, "cache")
    os.makedirs(src, exist_ok=True)
    for fx, name in ((case["builtins"], "builtins.pyi"), (case["typing"], "typing.pyi")):
        if fx:
            shutil.copy(os.path.join(REPO, "test-data", "unit", fx), os.path.join(src, name))
            os.utime(os.path.join(src, name), (1_000_000, 1_000_000))
    tick = 1000
    for rel, txt in [("main", text)] + sorted(case["files"].items()):
        p = os.path.join(src, rel)
        os.makedirs(os.path.dirname(p) or src, exist_ok=True)
        with open(p, "w", encoding="utf8") as f:
            f.write(txt)
        tick += 1
        os.utime(p, (1_000_000 + tick * 10,) * 2)
    for dp, dns, _ in os.walk(src):          # namespace packages: the directory's mtime is the module's mtime
        for dn in dns:
            os.utime(os.path.join(dp, dn), (1_000_000, 1_000_000))
    kw = dict(sources=[("main", "__main__")], user_mods="*", record=False, extra_opts={"cli_args_nosrc": flag_list})
    os.environ["VERIF_NO_ROUNDTRIP"] = "1"
    cold = W.run_build(src, cache_dir=cache, **kw)
    if cold.get("crash") or cold["status"] in (3, 4):
        out["skipped"] = "harness cannot run this case: " + (cold.get("crash") or "")[-200:]
        return out
    # the cache records the cold build wrote, with the (equally long) scratch path blanked out
    import hashlib
    recs: dict[str, str] = {}
    blank = root.encode()
    for dp, _, fns in os.walk(cache):
        for fn in fns:
            if fn in (".gitignore", "CACHEDIR.TAG") or fn.endswith(".verif_objs.json"):
                continue
            with open(os.path.join(dp, fn), "rb") as f:
                recs[os.path.relpath(os.path.join(dp, fn), cache)] = hashlib.sha256(f.read().replace(blank, b"@" * len(blank))).hexdigest()[:16]
    out["records"] = recs
    warm = W.run_build(src, cache_dir=cache, tick=cold["tick"], **kw)
    out["cold"] = [cold["status"], cold["messages"]]
    out["warm"] = [warm["status"], warm["messages"], (warm.get("crash") or "")[-300:]]
    return out
