"""The repository's own multi-step incremental scenarios (test-data/unit/check-incremental.test and
check-serialize.test) run through the recording driver: their EXPECTED OUTPUTS ARE IGNORED; every step's
warm run is compared with a cold run on the same files and options (C02), and the recorded store traces
are validated against Trace_Incremental.tla."""
from __future__ import annotations

import os
import re
import shutil
from typing import Any

from harness.common import REPO
from harness import world as W

_SEC = re.compile(r"^\[(\w+)(?: +([^\]]+))?\]\s*$")


def parse_cases(path: str) -> list[dict[str, Any]]:
    cases: list[dict[str, Any]] = []
    cur: dict[str, Any] | None = None
    sec: list[str] | None = None
    with open(path, encoding="utf8") as f:
        for raw in f:
            line = raw.rstrip("\n")
            if line.startswith("--") and not line.startswith("---"):
                continue
            m = _SEC.match(line)
            if m and m.group(1) == "case":
                cur = {"name": m.group(2), "main": [], "files": {}, "deletes": [], "builtins": None, "typing": None, "skip": None}
                cases.append(cur)
                sec = cur["main"]
                continue
            if cur is None:
                continue
            if m:
                kind, arg = m.group(1), (m.group(2) or "").strip()
                if kind == "file":
                    sec = cur["files"].setdefault(arg, [])
                elif kind == "delete":
                    cur["deletes"].append(arg); sec = []
                elif kind == "builtins":
                    cur["builtins"] = arg; sec = []
                elif kind == "typing":
                    cur["typing"] = arg; sec = []
                elif kind in ("out", "rechecked", "stale") or re.match(r"(out|rechecked|stale)\d+$", kind):
                    sec = []
                else:
                    sec = []
                continue
            if sec is not None:
                sec.append(line.replace("\\\\", "\\") if False else line)
    for c in cases:
        c["main"] = "\n".join(c["main"]) + "\n"
        c["files"] = {k: "\n".join(v) + "\n" for k, v in c["files"].items()}
    return cases


def steps_of(case: dict[str, Any]) -> int:
    n = 2
    for k in list(case["files"]) + case["deletes"]:
        m = re.search(r"\.(\d+)$", k)
        if m:
            n = max(n, int(m.group(1)))
    return n


def run_case(case: dict[str, Any], root: str, store: str, fmt: str) -> dict[str, Any]:
    """Returns {'steps': n, 'violation': None|str, 'traces': [...], 'skipped': reason|None}."""
    out: dict[str, Any] = {"name": case["name"], "steps": 0, "violation": None, "traces": [], "skipped": None, "nontrivial": False}
    text = case["main"]
    if case["name"].endswith(("-skip", "-xfail", "-posix", "-windows")) or "--bazel" in text or "--skip-cache-mtime-checks" in text or "--skip-version-check" in text:
        # cases the repository itself skips / expects to fail, and modes that trust the cache by design
        out["skipped"] = "skipped by the repository / cache-trusting mode"
        return out
    if "plugin" in text or any("plugin" in k for k in case["files"]) or "# cmd" in text and "-m" not in text:
        out["skipped"] = "plugins / unsupported cmd"
        return out
    src, cache = os.path.join(root, "src"), os.path.join(root, "cache")
    os.makedirs(src, exist_ok=True)
    for fx, name in ((case["builtins"], "builtins.pyi"), (case["typing"], "typing.pyi")):
        if fx:
            shutil.copy(os.path.join(REPO, "test-data", "unit", fx), os.path.join(src, name))
    tick = 1000
    nsteps = steps_of(case)

    def put(rel: str, txt: str) -> None:
        nonlocal tick
        p = os.path.join(src, rel)
        os.makedirs(os.path.dirname(p) or src, exist_ok=True)
        with open(p, "w", encoding="utf8") as f:
            f.write(txt)
        tick += 1
        t = 1_000_000 + tick * 10
        os.utime(p, (t, t))

    put("main", text)
    for k, v in case["files"].items():
        if not re.search(r"\.\d+$", k):
            put(k, v)
    st_tick = 0
    for step in range(1, nsteps + 1):
        if step > 1:
            for k, v in case["files"].items():
                m = re.search(r"^(.*)\.(\d+)$", k)
                if m and int(m.group(2)) == step:
                    put(m.group(1), v)
            for k in case["deletes"]:
                m = re.search(r"^(.*)\.(\d+)$", k)
                if m and int(m.group(2)) == step and os.path.exists(os.path.join(src, m.group(1))):
                    os.unlink(os.path.join(src, m.group(1)))
        flags = re.search(r"# flags: (.*)$", text, flags=re.M)
        f2 = re.search(r"# flags%d: (.*)$" % step, text, flags=re.M) if step > 1 else None
        flag_list = [x for x in ((f2 or flags).group(1).split() if (f2 or flags) else []) if x not in ("-v", "-vv", "--verbose")]
        flag_list += ["--no-site-packages", "--no-error-summary"]
        if any(x.startswith("--cache-dir") or x.startswith("--config-file") or x in ("--no-incremental",) for x in flag_list):
            out["skipped"] = "flags move the cache / config"
            return out
        cmd = re.search(r"# cmd: mypy (.*)$", text, flags=re.M)
        c2 = re.search(r"# cmd%d: mypy (.*)$" % step, text, flags=re.M) if step > 1 else None
        cmd = c2 or cmd
        if cmd:
            toks = cmd.group(1).split()
            sources: list[tuple[Any, str]] = []
            i = 0
            while i < len(toks):
                if toks[i] == "-m" and i + 1 < len(toks):
                    sources.append((None, toks[i + 1])); i += 2
                else:
                    out["skipped"] = "unsupported cmd " + cmd.group(1)
                    return out
        else:
            sources = [("main", "__main__")]
        kw = dict(sources=sources, user_mods="*", extra_opts={"cli_args_nosrc": flag_list})
        warm = W.run_build(src, cache_dir=cache, store=store, fmt=fmt, tick=st_tick, **kw)
        st_tick = warm["tick"]
        cold = W.run_build(src, cache_dir=None, record=False, **kw)
        out["steps"] += 1
        out["traces"].append(warm["trace"])
        if cold.get("crash") or cold["status"] == 3:
            out["skipped"] = "harness cannot run this case cold: " + (cold.get("crash") or "")[-200:]
            return out
        if warm.get("crash") or W.norm(warm) != W.norm(cold):
            out["violation"] = "step %d: warm status %s %r ; cold status %s %r %s" % (
                step, warm["status"], warm["messages"][:4], cold["status"], cold["messages"][:4], (warm.get("crash") or "")[-300:])
            return out
        if step > 1 and any(e["ev"] == "fresh" for e in warm["trace"]) and any(e["ev"] == "stale" for e in warm["trace"]):
            out["nontrivial"] = True
    return out
