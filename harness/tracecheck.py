"""Trace validation: recorded executions of the real code checked against Trace_*.tla with TLC."""
from __future__ import annotations

import json
import os
import re
from typing import Any

from harness.common import MachineryError, scratch, tlc

_REC = re.compile(r"^(?P<mod>.+)\.(?P<kind>data|meta_ex|meta)\.(ff|json)$")


def _shard(name: str, sqlite: bool) -> int:
    if not sqlite:
        return 0
    from mypy.util import hash_path_stem
    from mypy import defaults
    return hash_path_stem(name) % defaults.SQLITE_NUM_SHARDS


def flatten(runs: list[list[dict[str, Any]]], sqlite: bool, mods: list[str], killed_flags: list[bool] | None = None) -> dict[str, Any]:
    """runs: the per-build traces recorded by world.run_build, in order, on one cache directory."""
    ev: list[dict[str, Any]] = []
    shard: dict[str, int] = {}

    def mk(e: str, mod: str = "", kind: str = "", tick: int = 0, ok: bool = True, sh: int = 99) -> dict[str, Any]:
        return {"ev": e, "mod": mod, "kind": kind, "tick": tick, "ok": ok, "shard": sh}

    for i, tr in enumerate(runs):
        ev.append(mk("start"))
        killed = False
        for e in tr:
            if e["ev"] in ("fresh", "stale"):
                if e["mod"] in mods:
                    ev.append(mk(e["ev"], e["mod"]))
            elif e["ev"] == "store":
                if e["op"] in ("commit",):
                    ev.append(mk("commit"))
                    continue
                m = _REC.match(e["rec"].replace("/", "."))
                name = None
                if m:
                    name = m.group("mod")
                    if name.endswith(".__init__"):
                        name = name[: -len(".__init__")]      # a package's records live in <pkg>/__init__.*
                if e["op"] == "commit_path":
                    sh = _shard(e["rec"], sqlite)
                    mod = name if name in mods else ""
                    ev.append(mk("commit_path", mod, sh=sh))
                    continue
                if not m or name not in mods:
                    continue
                shard[name] = _shard(e["rec"], sqlite)
                ev.append(mk(e["op"], name, m.group("kind"), e["tick"], bool(e["ok"]), shard[name]))
            elif e["ev"] == "killed":
                killed = True
        if killed_flags is not None:
            killed = killed_flags[i]
        ev.append(mk("killed" if killed else "end"))
    for m in mods:
        shard.setdefault(m, _shard(m + ".meta.ff", sqlite))
    return {"sqlite": sqlite, "mods": mods, "shard": shard, "ev": ev}


def validate_flat(flat: list[dict[str, Any]], spec: str = "Trace_Incremental", cfg: str = "Trace_Incremental.cfg") -> dict[str, Any]:
    if not flat:
        return {"validated": 0, "rejected": [], "states": 0, "events": 0}
    d = scratch("trace-")
    path = os.path.join(d, "traces.json")
    with open(path, "w") as f:
        json.dump({"traces": flat, "progress": False}, f)
    r = tlc(spec, cfg, workers=8, coverage=False, env_extra={"TRACE_FILE": path}, timeout=900)
    if r.error or r.violated:
        raise MachineryError("trace validation run failed: %s %s\n%s" % (r.error, r.violated, r.out[-1500:]))
    acc = set()
    for line in r.printed:
        m = re.match(r'<<"ACC", (\d+)>>', line)
        if m:
            acc.add(int(m.group(1)))
    rejected = []
    bad = [i for i in range(1, len(flat) + 1) if i not in acc]
    if bad:
        sub = [flat[i - 1] for i in bad[:20]]
        with open(path, "w") as f:
            json.dump({"traces": sub, "progress": True}, f)
        r2 = tlc(spec, cfg, workers=1, coverage=False, env_extra={"TRACE_FILE": path}, timeout=900)
        reach: dict[int, int] = {}
        for line in r2.printed:
            m = re.match(r'<<"AT", (\d+), (\d+)>>', line)
            if m:
                reach[int(m.group(1))] = max(reach.get(int(m.group(1)), 0), int(m.group(2)))
        for j, tr in enumerate(sub, 1):
            at = reach.get(j, 1)
            nxt = tr["ev"][at - 1] if at - 1 < len(tr["ev"]) else None
            rejected.append({"at": [at, nxt], "why": "longest matched prefix %d of %d events; next event %s" % (at - 1, len(tr["ev"]), json.dumps(nxt)),
                             "prefix_tail": tr["ev"][max(0, at - 8): at], "trace": tr})
    return {"validated": len(acc), "rejected": rejected, "states": r.distinct, "events": sum(len(t["ev"]) for t in flat)}


def validate_store_traces(scenarios: list[dict[str, Any]], require_complete: bool = True) -> dict[str, Any]:
    """scenarios: [{'sqlite': bool, 'runs': [trace, ...], 'killed': [bool, ...]}]"""
    flat = [flatten(s["runs"], s["sqlite"], s.get("mods", ["a", "b", "c"]), s.get("killed")) for s in scenarios]
    return validate_flat(flat)


def validate_parallel_traces(runs: list[dict[str, Any]]) -> dict[str, Any]:
    """runs: [{'n': workers, 'shape': name, 'events': [...coordinator events of harness/par.py...], 'status': int}]"""
    from harness.par import SHAPES
    flat = []
    for r in runs:
        deps = SHAPES[r["shape"]]
        ev = []
        for e in r["events"]:
            if e["ev"] in ("stale", "fresh"):
                ev.append({"ev": e["ev"], "w": 0, "ph": 0, "sccs": e["sccs"], "status": 0})
            elif e["ev"] == "submit":
                ev.append({"ev": "submit", "w": e["w"], "ph": 0, "sccs": e["sccs"], "status": 0})
            elif e["ev"] == "recv":
                ev.append({"ev": "recv", "w": e["w"], "ph": e["ph"], "sccs": e["sccs"], "status": 0})
        ev.append({"ev": "end", "w": 0, "ph": 0, "sccs": [], "status": r["status"]})
        flat.append({"n": r["n"], "deps": [deps[k] for k in sorted(deps)], "ev": ev})
    return validate_flat(flat, spec="Trace_Parallel", cfg="Trace_Parallel.cfg")
