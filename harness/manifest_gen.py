"""Regenerates MANIFEST.json from the table below (single source for the interface file)."""
import json, os
VERIF = os.path.dirname(os.path.dirname(os.path.abspath(__file__)))

CHECKS = {
    "C13": dict(
        category="model_checking",
        text="TLC checks Exactness, DisableExact, OutputExactness, UnusedExact and ExitCode on Errors.tla (the decision tree of add_error_info / "
             "is_ignored_error, end-of-file generation with its gating, render, exit) over all ignore maps x enabled / disabled code sets x flag "
             "sets x report sequences of three bounded slices (sub-code pair, default-off code, renamed code, only-once, parented notes, blockers, "
             "multi-line spans, skipped lines). Every emitted behaviour (318 k) is replayed into a real mypy.errors.Errors; real builds of the "
             "check-*.test corpus are recorded from outside and validated trace by trace by TLC; `# type: ignore` placements and --disable / "
             "--enable-error-code variants must print exactly what the spec predicts from the unmodified run's reports (metamorphic); the exit "
             "status is bound through main.main and `python -m mypy`. Attached notes are defined in the spec (parent link, or following the error with the same code): AttachedExact demands that an ignore on ANY line of an "
             "error's origin span removes the error and all its attached notes; ignores are placed on every line of multi-line origin spans of the corpus and of 13 generated multi-line programs. "
             "Four spec-level mutants are rejected on every run.",
        design_ref="DESIGN.md 5.C13, Appendix D, notes/C13.md",
        note="bounded alphabets (<=2 reports in replay, <=3 in one slice); many_errors_threshold hiding excluded; watcher-swallowed derived notes and "
             "runs whose ignore map changes mid-file are skipped and counted; three known findings (an unmatched coded ignore drops the 'did you "
             "mean' suggestion of a name / import error; a suppressed error resurfaces under another code)",
        technique="TLA+ spec (Errors.tla) model-checked with TLC; TLC-generated behaviours replayed into mypy.errors.Errors; recorded real runs validated by TLC; metamorphic end-to-end checks over the test corpus and the CLI",
    ),
    "C12": dict(
        category="model_checking",
        text="TLC enumerates the bounded input spaces of four transcriptions of CPython's run-time rules and checks rule-level invariants: argument "
             "binding (ArgBind.tla: <=3 params x <=3 actuals and <=4 x <=2 complete, seeded <=4 x <=4), C3 linearisation (C3.tla: all hierarchies "
             "<=5 classes, <=6 model-checked and sampled), version / platform comparisons (Reach.tla: all accepted forms x targets 3.0-3.15 x micro x "
             "platforms, value on the run-time 5-tuple) and the constant-folding grammar (Fold.tla: depth 3 over 50 boundary operand tokens). Every "
             "emitted case is executed by CPython (the oracle; a specification / CPython difference is drift, exit 2) and given to real mypy "
             "(call-line diagnostics, TypeInfo.mro + MRO error, Block.is_unreachable, Final values) and mypyc's constant_fold_expr; "
             "disagreements are reduced to 1-minimal inputs. Three spec-level mutants are rejected on every run.",
        design_ref="DESIGN.md 5.C12, notes/C12.md",
        note="exhaustive within the stated bounds only; 4x3, 4x4 and 6-class replay are sampled; a size guard excludes huge evaluations; total "
             "TypedDicts and fixed tuples only; known findings: sys.version_info == / != / <= / > against a 2-tuple (8 keys) and duplicate "
             "keywords collected by **kwargs / *tuple + **TypedDict (3 keys)",
        technique="TLA+ specs (ArgBind, C3, Reach, Fold) model-checked with TLC; TLC-emitted inputs replayed three-way into CPython, mypy and mypyc",
    ),
    "C06": dict(
        category="model_checking",
        text="TLC explores every feasible CFG path of Ownership.tla (an abstract ownership machine: per-leaf owned-reference counters, definedness "
             "states, lender relation; invariants NoLeak, NoDoubleRelease, NoUndefRead, NoUseAfterRelease) over every function of the repository's "
             "mypyc test corpus; the functions come from the working tree's own parse_and_typecheck + compile_modules_to_ir at two stages (after "
             "insert_ref_count_opcodes / spills, and final IR) and are exported generically from the ops' own attributes (stolen(), is_borrowed, "
             "error_kind, ...). The contracts the machine reads off the IR are bound to the generated C: probe programs and a generated family are "
             "compiled by the tree's mypyc and run in a child on tracked objects; sys.getrefcount deltas must be 0 for every way of leaving, "
             "UnboundLocalError / AttributeError must match CPython, a dead child is a violation, and the machine's exit-kind predictions must "
             "contain what was observed. Five spec-level mutants are rejected on every run. "
             "The contracts the machine trusts are additionally bound to the C code by three generated families, each compiled by the tree's mypyc and run against CPython on tracked objects: "
             "a definedness family (11 local types x 17 may-be-unbound shapes x every way of leaving), a primitive-contract family (one function per registered primitive of "
             "mypyc/primitives/registry.py expressible from typed source + syntax-only primitives: 311 functions, 8.2 k input cases over hit / miss / default / out-of-range / exception paths; "
             "179 of 181 targeted registry C functions reached) and a wrapper family (119 functions and methods over parameter kinds x 10 parameter types, 1.25 k calls from interpreted code with "
             "good, k-th-wrong-typed, missing, extra, duplicate and unknown arguments): reference-count change 0 per path, TypeError where CPython's binding raises, no dead child; all family "
             "functions also pass through TLC at both IR stages.",
        design_ref="DESIGN.md 5.C06, notes/C06.md",
        note="heap state across yields, out-parameters and bitmap-tracked locals are probed only; OOM paths never exercised; quick: irbuild / "
             "refcount / exceptions programs + run-generators / run-exceptions + a seeded 12 % of the other run programs; nine known-finding keys "
             "from four defects (spilled borrowed values, generator close(), failing Cast, list SetItem out of range)",
        technique="TLA+ spec executing exported mypyc IR as data, model-checked with TLC; real IR from the working tree's pipeline is the bound artefact; compiled probes replayed dynamically against the machine's predictions and CPython",
    ),
    "C01": dict(
        category="model_checking",
        text="FlowTyping.tla generates programs of a small typed fragment token by token and checks them with a transcription of binder.py and "
             "the narrowing / compatibility rules (one TLC action per statement the real checker visits), then executes every accepted program "
             "on all inputs: invariants MemberOK, RevealOK, ReachOK, NoWrong. Every emitted program is rendered as Python with probes at every "
             "program point: (i) real mypy's reveal_type / type map / reachability / error positions must equal Gamma (binding; a mismatch is "
             "model drift, exit 2 above 1 %), (ii) CPython runs every accepted function on every argument class and every tree of opaque "
             "condition outcomes with a recording probe (the oracle), (iii) single-edit ill-typed perturbations that fail at run time must be "
             "rejected by mypy. Five spec-level mutants are rejected; the finding config reproduces the (now repaired) truthiness-join defect. Two more specified fragments with the same "
             "oracle and binding: SeqMatch.tla (match statements with sequence patterns over fixed / variadic / homogeneous tuples, lists and unions of them: PEP 634 "
             "matching specified exactly and bound to CPython, the static rule transcribed from checkpattern.py; invariants ReachSound, CaptureSound, FixedExact) and "
             "Override.tla (attribute / read-only / settable property overrides across hierarchies of 3-4 classes with C3 MRO; invariant Sound; readers and writers "
             "through every base-typed reference executed under CPython); their spec-level mutants (off-by-one star length, direct bases only, ...) are rejected. "
             "TryFlow.tla (try / except ValueError|KeyError nested to depth 2 around assignments to one Optional[int] local, a call that may raise and a use that needs int; "
             "every program of <= 9 tokens x every raise schedule): CPython must end each execution as specified (binding of the exception semantics), real mypy --strict "
             "decides acceptance, accepted + TypeError is a violation; the spec-level property 'only the innermost try sees the raise-point state' is violated by TLC.",
        design_ref="DESIGN.md 5.C01, notes/C01.md",
        note="flow-sensitive narrowing / join / call-compatibility core only: classes with final leaves, unions with None, isinstance / is None / "
             "truthiness / class-pattern narrowing, assignment, if/else, while, break/continue/return, call, method call; exhaustive to 3 statements "
             "per slice, simulated programs to 7; generics, containers, protocols, operators, for/with, try/finally are outside the model (try/except: the TryFlow fragment only)",
        technique="TLA+ specs (FlowTyping.tla: binder transcription + concrete semantics; SeqMatch.tla, Override.tla, TryFlow.tla) model-checked with TLC; every emitted program replayed into real mypy (binding) and executed under CPython (oracle)",
    ),
    "C05": dict(
        category="exploration",
        text="Differential vs CPython of TLC-generated programs for five mechanisms only: structured control flow (CtrlFlow.tla: try / except / "
             "else / finally x return / break / continue / raise / bare raise x loops x nested calls, as a control-stack machine with a pending "
             "completion), wrapper argument binding (ArgBind.tla), method / property resolution on native classes and traits (Dispatch.tla over "
             "C3.tla), special-method slot contracts of native classes (Slots.tla: __hash__ / __eq__, __len__ / __bool__, __contains__ / __getitem__ / __setitem__ / "
             "__delitem__, rich comparisons incl. NotImplemented / reflected / subclass-first, __add__ / __radd__ / __iadd__; each operation performed by interpreted and "
             "by compiled callers) and for loops over dict / dict views / set / list / reversed / enumerate / zip / tuple / str / range whose body mutates the container "
             "(IterMut.tla: elements seen, RuntimeError, final container). TLC emits behaviours with their expected traces; each is validated against CPython (drift = machinery failure) and replayed "
             "into mypyc-compiled extension modules built from the working tree; death of the child running compiled code is a violation.",
        design_ref="DESIGN.md 5.C05, notes/C05.md",
        note="the rest of C05 (expressions, container primitives, generators, async, attributes) is not reached by the specification; programs "
             "mypyc rejects are excluded and counted (compile_rejected); quick builds -O0 single group, thorough -O0/-O3 x single / multi_file / "
             "separate; Slots: one binary operator, two comparison pairs, no __iter__ / __call__ / descriptors; IterMut: <=3 elements, one mutation per loop; quick "
             "compiles a fixed subset + seeded sample of the larger families; 13 known findings (bare raise without active exception, super() bound statically through traits, "
             "positional-only parameters accepted as keywords, TypeError wording, negative __len__ not rejected, range bound re-read each iteration, binary-operator wrapper "
             "dispatch, ...; findings.d/C05.json)",
        technique="TLA+ operational semantics / binding / dispatch / slot-contract / iterator specs (spec-level mutants must be rejected by CPython); TLC-emitted programs validated against CPython and replayed into mypyc-compiled extensions",
    ),
    "C08": dict(
        category="model_checking",
        text="Lattice.tla defines the universe of type terms (TLC emits terms, class declarations and union item lists) and states the laws - "
             "reflexivity, transitivity on Any-free terms, proper implies subtype, join / meet bounds in both argument orders, simplification "
             "equivalent under every permutation - as invariants over relation tables computed by the REAL is_subtype, is_proper_subtype, "
             "is_same_type, join_types, meet_types, make_simplified_union on types analysed by a real build; every violation is re-confirmed on a "
             "fresh build and delta-minimised to a shape key. SubtypeCache.tla models typestate.py's memo (kind key, recordings, resets): TLC checks "
             "AnswerIsTruth on tables extracted with empty caches, rejects three key mutants and emits query / reset behaviours that are replayed "
             "on the real type_state, comparing cache contents and answers after every step and after reset_all_subtype_caches().",
        design_ref="DESIGN.md 5.C08, notes/C08.md",
        note="depth 1 over 204 (quick) / 429 (thorough) terms + seeded depth-2 terms over clean dimensions; overloads, ParamSpec, TypeVarTuple not in "
             "the universe; 38 known finding shapes from four root causes in join.py / meet.py (findings.d/C08.json)",
        technique="TLA+ specs (Lattice.tla, SubtypeCache.tla) model-checked with TLC over observation tables from the real functions; TLC-generated cache behaviours replayed on the real type_state",
    ),
    "C18": dict(
        category="model_checking",
        text="ModuleMap.tla transcribes find_sources (crawl_up, find_sources_in_dir), compute_search_paths, FindModuleCache._find_module / "
             "find_modules_recursive and load_graph's seeding; TLC checks RoundTrip, RoundTripFind, FindInvertsCrawl, order independence, "
             "DIR-vs-files and DIR-vs--p over every tree of <=4 (quick) / <=8 (thorough) files from four 12-path universes x options x cwd x "
             "mypy_path x target, and emits every world. Every world is replayed into the real functions (binding on listings, every find_module "
             "result under every file order, the -p listing); the property is evaluated independently on the real results; sampled worlds go "
             "through main.process_options + build.build and the real CLI (DIR vs FILES in two orders vs -p).",
        design_ref="DESIGN.md 5.C18, notes/C18.md",
        note="names are valid identifiers; no -stubs directories, py.typed or site-packages; no nested explicit bases; one known finding (three "
             "keys): a module file beside a same-named directory without __init__ is dropped by `mypy DIR`",
        technique="TLA+ spec (ModuleMap.tla) model-checked with TLC; every enumerated world replayed into real mypy (conformance + property on real results); CLI sample",
    ),
    "C17": dict(
        category="model_checking",
        text="TLC checks, on Config.tla, that the transcription of process_options / build_per_module_cache / clone_for_module / compile_glob / "
             "inline application equals the documented precedence rule, for every ordered selection of <=4 sections from 6 patterns x unset / 2 "
             "values per source x 39 module names (3-value and second-alphabet configs too); spec-level mutants (NoSort, ConcreteFirst, "
             "FirstGlobWins, UmbrellaBeforeConfig) are rejected on every run; umbrella settings (--strict / strict = True) are sources of their own, ranked at the place they are "
             "written, and are put in conflict with every member option through every other source; a differential section-locality check demands that a key written into "
             "[mypy-pkg.mod] changes neither the global options nor unmatched modules. Every emitted configuration is replayed into the real code (process_options, "
             "clone_for_module, parse_mypy_comments, apply_changes) under rotating options, spellings and file formats (mypy.ini / setup.cfg / "
             "pyproject.toml), a sample goes through real builds and `python -m mypy`. Source equivalence: every flag and ini_config_types key x "
             "every accepting source, comparing Options snapshots and, for witnessed settings, diagnostics.",
        design_ref="DESIGN.md 5.C17, notes/C17.md",
        note="single-letter module components; bare [mypy-*] excluded; list-valued and error-code options only under equivalence; quick: <=3 "
             "sections exhaustive + a simulated 4-section sample; known finding: [mypy-*.b] does not apply to top-level module b (doc vs code)",
        technique="TLA+ spec with the documented rule and the code transcription side by side, model-checked with TLC; TLC-emitted configurations replayed into real mypy option processing, builds and CLI; source-equivalence sweep",
    ),
    "C03": dict(
        category="model_checking",
        text="Daemon.tla models the request protocol of the daemon's fine-grained increments (changed-module processing reachable from the roots, "
             "blocker carry-over, joining / deleting modules, what the import-following walk treats as an import) and FsWatcher.tla transcribes "
             "FileSystemWatcher exactly; TLC checks RespondsLikeFresh / GraphIsBuild and Exact, rejects the mutants (follow indirect "
             "dependencies; coarse clock) and emits behaviours. Every Daemon behaviour is replayed on a real in-process dmypy Server (a request "
             "after every edit): each response is compared with a fresh non-incremental build (the property) and with the model's response "
             "(binding: zero drift on the unchanged tree); FsWatcher behaviours are replayed on the real watcher. On top, edit histories over the "
             "48-world catalogue D (2-step exhaustive in thorough + a fixed set of 3-4 step histories, with and without import following, with "
             "recheck), catalogue D2 (interface features x ways of depending on them) and fine-grained-cache starts are replayed, failures delta-minimised "
             "to canonical 1-minimal histories; the repository's 713 fine-grained scenarios run on a real Server with their expected output ignored "
             "(own order + there-and-back, and with the daemon started from a fine-grained cache written by a batch build of the first step; thorough: reversed), "
             "every response against a fresh build.",
        design_ref="DESIGN.md 5.C03, 10",
        note="catalogue of three modules (re-export / inferred / internal use, import removed, file absent, syntax error); in-process "
             "Server.check / cmd_recheck with test fixtures; known findings: the blocker-recovery family, def -> class kind change, fine-grained-cache families, package / submodule deletion and undo "
             "families of the corpus (114 keys, findings.d/C03.json)",
        technique="TLA+ specs (Daemon.tla, FsWatcher.tla) model-checked with TLC; TLC behaviours and enumerated edit histories replayed on a real dmypy Server against a fresh-build oracle",
    ),
    "C07": dict(
        category="model_checking",
        text="Parallel.tla models the coordinator (find_stale_sccs rounds, arbitrary free-worker choice, arbitrary batching, one reply consumed at a "
             "time) and N workers (interface phase with dependency interfaces read from the COMMITTED store, commit, reply, implementation phase, "
             "commit, reply); TLC checks ReadsCommitted, NoPrematureSubmit, ErrorsOnce, AtEnd (termination with every stale SCC committed and "
             "reported once) for N in {2,3} over three DAG shapes, cold and warm, and rejects two mutants. TLC simulation behaviours become release "
             "policies for REAL -n N builds whose worker replies are gated, so the schedule is chosen, not incidental: output and status are "
             "compared with the sequential build, each interface reply with the committed store, the cache left behind with warm parallel and "
             "warm sequential runs vs cold; coordinator event streams are validated against Trace_Parallel.tla. The repository's multi-file check cases (500; quick 1/4) are built with -n 2 under a "
             "free-running schedule and sequentially, expected outputs ignored, and a sequential warm run on the cache the parallel build left is compared with a cold run.",
        design_ref="DESIGN.md 5.C07",
        note="N <= 3 in the model (thorough real runs up to 8), 6-SCC graphs; batch composition follows the real size hints; cross-file message "
             "order not compared; in-process coordinator with test fixtures, real worker subprocesses",
        technique="TLA+ spec (Parallel.tla) model-checked with TLC; TLC behaviours replayed as gated schedules on real parallel builds against the sequential build; trace validation (Trace_Parallel.tla)",
    ),
    "C10": dict(
        category="exploration",
        text="Context.tla defines the context space (8 hash seeds x 6 orders of the file arguments x 241 sequences of <=2 unrelated prior builds in the "
             "same interpreter, each with its own options: same / python 3.10 / win32 + 3.11 + loose, x 6 worlds incl. an import cycle with diagnostics in "
             "every module, misspelt stdlib imports, and diagnostics that list names / depend on the inference mode (bundled typeshed), the last also measured with non-default options "
             "of its own) and the non-interference statement for the cold build and the warm build that follows it; TLC enumerates and emits every configuration, each is executed on the "
             "real code in an interpreter started with that PYTHONHASHSEED and compared with the baseline context: diagnostics byte for byte "
             "(as a set across file orders), cache records byte for byte under a logical clock, and the output of a warm run in the same interpreter (against the cold output and, byte for byte, against the baseline's warm output). "
             "The repository's check cases (7.7 k; quick 1/10, thorough 1/2) are built cold and warm under 2-3 hash seeds: text AND order of the messages must agree. "
             "Exploration is the honest level: the state machine adds no reachability argument here, it generates the space.",
        design_ref="DESIGN.md 5.C10",
        note="in-process builds with fixtures; order-independence is only demanded of the acyclic worlds' diagnostics as a set; cache-record "
             "equality is only demanded between runs with the same file order; quick executes ~500 of the 58 k configurations (every seed, every order, every "
             "single prior build), thorough ~13 k; known finding: the only_once 'See ...#missing-imports' note follows the file listed first (4 keys)",
        technique="TLA+ spec (Context.tla) enumerates the context space with TLC; every configuration executed on real mypy and compared with the baseline context",
    ),
    "C02": dict(
        category="model_checking",
        text="Incremental.tla models the cache protocol of build.py operation by operation (load/validate incl. the meta-rewriting mtime path, "
             "freshness from dep/indirect hashes, trees from data records vs hashes from meta records, data/meta/meta_ex writes with commits, "
             "both stores); TLC checks OutEqualsCold and FreshIsRight over all edit/touch/run histories of the bound and emits every history; each is "
             "replayed into real mypy in the store x format configurations with a cold run as oracle after every run and the model's "
             "re-analysed / reported sets as binding; recorded store traces are validated against Trace_Incremental.tla. Catalogue R histories "
             "(a fixed set of 2-step and 3-4 step histories with stubs / deletions / packages / file moves), catalogue T (cycles, transitively reachable "
             "submodules, follow modes) and catalogue G (TransDeps.tla) are real-vs-real. The repository's own incremental scenarios run with their expected "
             "output ignored (own order, there-and-back, thorough: reversed); every single-step case of every check-*.test file (7.7 k programs, quick 1/8) "
             "must print the same without a cache, while writing it, replayed from it and re-analysed against dependencies deserialised from it; and "
             "every CacheMeta / CacheMetaEx object the build reads must equal, field by field, the object last written for that entry (the model's "
             "Load = last committed WMeta / WEx), incl. a field-rich program in all four configurations; every module tree written is pushed through BOTH cache "
             "formats at write time (serialize / deserialize, write / read, fixed up) and must serialize again to the same in both, and trees loaded from the "
             "cache must re-serialize to what was written (the model's 'trees from data records').",
        design_ref="DESIGN.md 5.C02, 10",
        note="bounded catalogue of 3-5 modules and 4-6 content variants each; logical clock (A-clock); in-process build with test fixtures; "
             "oracle is a cold run of the same code; trusted: TLC, the harness' store proxy",
        technique="TLA+ spec (Incremental.tla) model-checked with TLC; TLC-generated histories replayed into real mypy against a cold-run oracle; trace validation with Trace_Incremental.tla",
    ),
    "C04": dict(
        category="fault_enumeration",
        text="Incremental.tla with Crash and failing writes as independently enabled actions (FS and sqlite store semantics): TLC visits every "
             "position between two store operations and every <=2 failed writes and checks OutEqualsCold / FreshIsRight for all later runs; "
             "the specification mutants that drop one protocol safeguard each are rejected. Real side: for every base history the run after an "
             "edit is really killed (forked child, os._exit) after EACH of its store operations and has EACH write fail, followed by "
             "{nothing, revert} + clean run + run after editing the importer, every completed run compared with a cold run; store traces "
             "across process deaths are validated against Trace_Incremental.tla.",
        design_ref="DESIGN.md 5.C04",
        note="A-kill (process death, not power loss), A-clock, A-single-writer; sequential build only (parallel workers: see C07); remove() "
             "failures are outside the quantifier (writes)",
        technique="TLA+ spec with Crash/WriteFails actions model-checked with TLC; exhaustive real kill-point and failed-write enumeration replayed into real mypy; trace validation",
    ),
    "C09": dict(
        category="model_checking",
        text="CacheKey.tla (options as validity key, rendered diagnostics stored, print options applied at replay) is instantiated with constants "
             "extracted from the code (option table, OPTIONS_AFFECTING_CACHE, options read by format_messages) and a measured Affects relation; "
             "TLC lists the options with a stale history; every affected option x place (config global, command line, per-module section exact / wildcard / "
             "pinned / own, pairwise contexts of the print and report options) x witness (5 fixture programs, one typeshed program, a two-plugin program for the "
             "order-sensitive `plugins`) is replayed on real mypy as A;B, B;A, A;B;A, B;A;B on one cache with a cold run of the same options as oracle.",
        design_ref="DESIGN.md 5.C09",
        note="options without a witness program are listed as not exercised; options that move the cache (python_version, cache_dir) excluded; "
             "Options are built by main.process_options from real argv / mypy.ini, the build runs in-process with fixtures",
        technique="TLA+ spec (CacheKey.tla) instantiated from extracted option tables, checked with TLC; option-toggle histories replayed into real mypy against a cold-run oracle",
    ),
    "C16": dict(
        category="fault_enumeration",
        text="TLC checks Alive / NoStaleStatus / Intact / RepliesRight on DmypyServe.tla (all client-plan sequences of <=3 connections, every "
             "chunking) and PrefixOK / AllAtEnd / StreamInv on Ipc.tla (every segmentation and send interleaving); every emitted behaviour is "
             "replayed into real IPCBase objects (state compared per step) and TLC-emitted fault sequences plus early close at real byte "
             "offsets are replayed against a real foreground dmypy daemon over its socket, whose replies, liveness and status file must "
             "match the model. Client plans include a complete request followed in the same write by the beginning of a second frame (spec-level mutants "
             "CatchReceiveError, ResetOnAccept, ResetOnEof, CatchSendError are rejected). DmypyLifecycle.tla (start / status / stop / kill / restart / run / check, "
             "an external SIGKILL, and the daemon's own idle exit under --timeout; invariants NoOrphans, FileNamesLiveOrStale, ExitLeavesNoFile) is replayed "
             "through the real dmypy command line. Fault enumeration is the right level: the quantifier is over fault sequences and segmentations, both finite "
             "and enumerated by the model.",
        design_ref="DESIGN.md 5.C16",
        note="client faults are connection-level; bounded to <=2 connections per replayed sequence (3 in the model), frames of 1-3 abstract "
             "bytes; zero-length frames excluded; trusted: TLC, the byte-offset refinement map of the driver",
        technique="TLA+ spec (Ipc.tla, DmypyServe.tla, DmypyLifecycle.tla) model-checked with TLC; TLC-generated behaviours replayed into real IPCBase and a real dmypy daemon",
    ),
}
PLANNED = {
    "C01": "check not built yet (planned: FlowTyping.tla binder transcription, DESIGN 5.C01)",
    "C02": "check not built yet (planned: Incremental.tla, DESIGN 5.C02)",
    "C03": "check not built yet (planned: Daemon.tla / FsWatcher.tla, DESIGN 5.C03)",
    "C04": "check not built yet (planned: Incremental.tla + Crash/WriteFails, DESIGN 5.C04)",
    "C05": "check not built yet (planned: CtrlFlow.tla, DESIGN 5.C05)",
    "C06": "check not built yet (planned: Ownership.tla, DESIGN 5.C06)",
    "C07": "check not built yet (planned: Parallel.tla, DESIGN 5.C07)",
    "C08": "check not built yet (planned: Lattice.tla / SubtypeCache.tla, DESIGN 5.C08)",
    "C09": "check not built yet (planned: CacheKey.tla, DESIGN 5.C09)",
    "C10": "check not built yet (planned, DESIGN 5.C10)",
    "C12": "check not built yet (planned: ArgBind/C3/Reach/Fold.tla, DESIGN 5.C12)",
    "C13": "check not built yet (planned: Errors.tla, DESIGN 5.C13)",
    "C17": "check not built yet (planned: Config.tla, DESIGN 5.C17)",
    "C18": "check not built yet (planned: ModuleMap.tla, DESIGN 5.C18)",
}
NOT_APPLICABLE = {
    "C11": "encode/decode fidelity of one pure function pair over all values: no state or transitions for a TLA+ specification to capture (DESIGN 6)",
    "C14": "relation between two implementations of one pure function (two parsers) over all source texts; nothing to model-check (DESIGN 6)",
    "C15": "64-bit numeric exactness of C primitives; TLC integers are 32-bit and a reduced-width model cannot be bound to the implementation (DESIGN 6)",
    "C19": "cross-tool round trip (stubgen -> mypy/stubtest) over generated modules: pure translation fidelity (DESIGN 6)",
    "C20": "quantifies over all mutated program texts; only generation at scale explores it, a specification adds nothing (DESIGN 6)",
}

def main():
    checks = []
    for pid in sorted(CHECKS):
        c = CHECKS[pid]
        checks.append({
            "property_id": pid,
            "quick_cmd": "bin/vcheck %s --tier quick" % pid,
            "thorough_cmd": "bin/vcheck %s --tier thorough" % pid,
            "evidence_file": "/verif/evidence/%s.json" % pid,
            "replay_cmd_template": "bin/vcheck %s --replay {path}" % pid,
            "engine": "tlc+replay",
            "level_claimed": {"category": c["category"], "text": c["text"], "design_ref": c["design_ref"]},
            "level_note": c["note"],
            "technique": c["technique"],
        })
    na = [{"property_id": p, "reason": r} for p, r in sorted({**{k: v for k, v in PLANNED.items() if k not in CHECKS}, **NOT_APPLICABLE}.items())]
    m = {
        "version": 1,
        "setup_cmd": "bin/setup",
        "hooks": {
            "guard": "PYTHON_MYPY_VERIF",
            "enable": "no source hooks: mypy runs interpreted from /repo and every linearization point is wrapped from outside by the drivers "
                      "(in subprocesses through harness/shim/sitecustomize.py, inert unless PYTHON_MYPY_VERIF=1)",
            "baseline_off_cmd": "cd /repo && /venv/bin/python -m pytest -ra -q -p no:cacheprovider --timeout=900 --continue-on-collection-errors",
            "source_commits": [],
            "add_only": True,
        },
        "engines": [{"name": "tlc+replay", "path": "/verif/harness", "serves_properties": sorted(CHECKS),
                     "kind_free_text": "TLA+ specifications under /verif/spec checked with TLC; behaviours replayed into / traces validated from the real code by /verif/harness/drivers"}],
        "checks": checks,
        "not_applicable": na,
        "notes": "Every check: exit 0 held, 1 + VIOLATION line, 2 machinery failure. Known findings: /verif/known_findings.json.",
    }
    with open(os.path.join(VERIF, "MANIFEST.json"), "w") as f:
        json.dump(m, f, indent=1); f.write("\n")

if __name__ == "__main__":
    main()
