"""Regenerates MANIFEST.json from the table below (single source for the interface file)."""
import json, os
VERIF = os.path.dirname(os.path.dirname(os.path.abspath(__file__)))

CHECKS = {
    "C17": dict(
        category="model_checking",
        text="TLC checks, on Config.tla, that the transcription of process_options / build_per_module_cache / clone_for_module / compile_glob / "
             "inline application equals the documented precedence rule, for every ordered selection of <=4 sections from 6 patterns x unset / 2 "
             "values per source x 39 module names (3-value and second-alphabet configs too); spec-level mutants (NoSort, ConcreteFirst, "
             "FirstGlobWins) are rejected on every run. Every emitted configuration is replayed into the real code (process_options, "
             "clone_for_module, parse_mypy_comments, apply_changes) under rotating options, spellings and file formats (mypy.ini / setup.cfg / "
             "pyproject.toml), a sample goes through real builds and `python -m mypy`. Source equivalence: every flag and ini_config_types key x "
             "every accepting source, comparing Options snapshots and, for witnessed settings, diagnostics.",
        design_ref="DESIGN.md 5.C17, notes/C17.md",
        note="single-letter module components; bare [mypy-*] excluded; list-valued and error-code options only under equivalence; quick: <=3 "
             "sections exhaustive + a simulated 4-section sample; known finding: [mypy-*.b] does not apply to top-level module b (doc vs code)",
        technique="TLA+ spec with the documented rule and the code transcription side by side, model-checked with TLC; TLC-emitted configurations replayed into real mypy option processing, builds and CLI; source-equivalence sweep",
    ),
    "C03": dict(
        category="model_checking",
        text="Daemon.tla models the request protocol of the daemon's fine-grained increments (changed-module processing reachable from the roots, "
             "blocker carry-over, joining / deleting modules, what the import-following walk treats as an import) and FsWatcher.tla transcribes "
             "FileSystemWatcher exactly; TLC checks RespondsLikeFresh / GraphIsBuild and Exact, rejects the mutants (follow indirect "
             "dependencies; coarse clock) and emits behaviours. Every Daemon behaviour is replayed on a real in-process dmypy Server (a request "
             "after every edit): each response is compared with a fresh non-incremental build (the property) and with the model's response "
             "(binding: zero drift on the unchanged tree); FsWatcher behaviours are replayed on the real watcher. On top, edit histories over the "
             "48-world catalogue D (2-step exhaustive in thorough + a fixed set of 3-4 step histories, with and without import following, with "
             "recheck) are replayed, failures delta-minimised to canonical 1-minimal histories.",
        design_ref="DESIGN.md 5.C03, 10",
        note="catalogue of three modules (re-export / inferred / internal use, import removed, file absent, syntax error); in-process "
             "Server.check / cmd_recheck with test fixtures; known findings: the blocker-recovery family (38 minimal histories, findings.d/C03.json)",
        technique="TLA+ specs (Daemon.tla, FsWatcher.tla) model-checked with TLC; TLC behaviours and enumerated edit histories replayed on a real dmypy Server against a fresh-build oracle",
    ),
    "C07": dict(
        category="model_checking",
        text="Parallel.tla models the coordinator (find_stale_sccs rounds, arbitrary free-worker choice, arbitrary batching, one reply consumed at a "
             "time) and N workers (interface phase with dependency interfaces read from the COMMITTED store, commit, reply, implementation phase, "
             "commit, reply); TLC checks ReadsCommitted, NoPrematureSubmit, ErrorsOnce, AtEnd (termination with every stale SCC committed and "
             "reported once) for N in {2,3} over three DAG shapes, cold and warm, and rejects two mutants. TLC simulation behaviours become release "
             "policies for REAL -n N builds whose worker replies are gated, so the schedule is chosen, not incidental: output and status are "
             "compared with the sequential build, each interface reply with the committed store, the cache left behind with warm parallel and "
             "warm sequential runs vs cold; coordinator event streams are validated against Trace_Parallel.tla.",
        design_ref="DESIGN.md 5.C07",
        note="N <= 3 in the model (thorough real runs up to 8), 6-SCC graphs; batch composition follows the real size hints; cross-file message "
             "order not compared; in-process coordinator with test fixtures, real worker subprocesses",
        technique="TLA+ spec (Parallel.tla) model-checked with TLC; TLC behaviours replayed as gated schedules on real parallel builds against the sequential build; trace validation (Trace_Parallel.tla)",
    ),
    "C10": dict(
        category="exploration",
        text="Context.tla defines the context space (8 hash seeds x 6 orders of the file arguments x 13 sequences of unrelated prior builds in the "
             "same interpreter x 3 worlds) and the non-interference statement; TLC enumerates and emits every configuration, each is executed on the "
             "real code in an interpreter started with that PYTHONHASHSEED and compared with the baseline context: diagnostics byte for byte "
             "(as a set across file orders), cache records byte for byte under a logical clock, and a warm run in the same interpreter. "
             "Exploration is the honest level: the state machine adds no reachability argument here, it generates the space.",
        design_ref="DESIGN.md 5.C10",
        note="in-process builds with fixtures; worlds are acyclic with several indirect / suppressed dependencies and union types; cache-record "
             "equality is only demanded between runs with the same file order",
        technique="TLA+ spec (Context.tla) enumerates the context space with TLC; every configuration executed on real mypy and compared with the baseline context",
    ),
    "C02": dict(
        category="model_checking",
        text="Incremental.tla models the cache protocol of build.py operation by operation (load/validate incl. the meta-rewriting mtime path, "
             "freshness from dep/indirect hashes, trees from data records vs hashes from meta records, data/meta/meta_ex writes with commits, "
             "both stores); TLC checks OutEqualsCold and FreshIsRight over all edit/touch/run histories of the bound and emits every history; each is "
             "replayed into real mypy in the store x format configurations with a cold run as oracle after every run and the model's "
             "re-analysed / reported sets as binding; recorded store traces are validated against Trace_Incremental.tla. Catalogue R histories "
             "(2-step exhaustive in thorough, seeded 3-4 step with stubs / deletions) are real-vs-real.",
        design_ref="DESIGN.md 5.C02",
        note="bounded catalogue of 3-5 modules and 4-6 content variants each; logical clock (A-clock); in-process build with test fixtures; "
             "oracle is a cold run of the same code; trusted: TLC, the harness' store proxy",
        technique="TLA+ spec (Incremental.tla) model-checked with TLC; TLC-generated histories replayed into real mypy against a cold-run oracle; trace validation with Trace_Incremental.tla",
    ),
    "C04": dict(
        category="fault_enumeration",
        text="Incremental.tla with Crash and failing writes as independently enabled actions (FS and sqlite store semantics): TLC visits every "
             "position between two store operations and every <=2 failed writes and checks OutEqualsCold / FreshIsRight for all later runs; "
             "the specification mutants that drop one protocol safeguard each are rejected. Real side: for every base history the run after an "
             "edit is really killed (forked child, os._exit) after EACH of its store operations and has EACH write fail, followed by "
             "{nothing, revert} + clean run + run after editing the importer, every completed run compared with a cold run; store traces "
             "across process deaths are validated against Trace_Incremental.tla.",
        design_ref="DESIGN.md 5.C04",
        note="A-kill (process death, not power loss), A-clock, A-single-writer; sequential build only (parallel workers: see C07); remove() "
             "failures are outside the quantifier (writes)",
        technique="TLA+ spec with Crash/WriteFails actions model-checked with TLC; exhaustive real kill-point and failed-write enumeration replayed into real mypy; trace validation",
    ),
    "C09": dict(
        category="model_checking",
        text="CacheKey.tla (options as validity key, rendered diagnostics stored, print options applied at replay) is instantiated with constants "
             "extracted from the code (option table, OPTIONS_AFFECTING_CACHE, options read by format_messages) and a measured Affects relation; "
             "TLC lists the options with a stale history; every affected option x place (config global, command line, per-module section) x "
             "witness is replayed on real mypy as A;B, B;A, A;B;A, B;A;B on one cache with a cold run of the same options as oracle.",
        design_ref="DESIGN.md 5.C09",
        note="options without a witness program are listed as not exercised; options that move the cache (python_version, cache_dir) excluded; "
             "Options are built by main.process_options from real argv / mypy.ini, the build runs in-process with fixtures",
        technique="TLA+ spec (CacheKey.tla) instantiated from extracted option tables, checked with TLC; option-toggle histories replayed into real mypy against a cold-run oracle",
    ),
    "C16": dict(
        category="fault_enumeration",
        text="TLC checks Alive / NoStaleStatus / Intact / RepliesRight on DmypyServe.tla (all client-plan sequences of <=3 connections, every "
             "chunking) and PrefixOK / AllAtEnd / StreamInv on Ipc.tla (every segmentation and send interleaving); every emitted behaviour is "
             "replayed into real IPCBase objects (state compared per step) and TLC-emitted fault sequences plus early close at real byte "
             "offsets are replayed against a real foreground dmypy daemon over its socket, whose replies, liveness and status file must "
             "match the model. Fault enumeration is the right level: the quantifier is over fault sequences and segmentations, both finite "
             "and enumerated by the model.",
        design_ref="DESIGN.md 5.C16",
        note="client faults are connection-level; bounded to <=2 connections per replayed sequence (3 in the model), frames of 1-3 abstract "
             "bytes; zero-length frames excluded; trusted: TLC, the byte-offset refinement map of the driver",
        technique="TLA+ spec (Ipc.tla, DmypyServe.tla) model-checked with TLC; TLC-generated behaviours replayed into real IPCBase and a real dmypy daemon",
    ),
}
PLANNED = {
    "C01": "check not built yet (planned: FlowTyping.tla binder transcription, DESIGN 5.C01)",
    "C02": "check not built yet (planned: Incremental.tla, DESIGN 5.C02)",
    "C03": "check not built yet (planned: Daemon.tla / FsWatcher.tla, DESIGN 5.C03)",
    "C04": "check not built yet (planned: Incremental.tla + Crash/WriteFails, DESIGN 5.C04)",
    "C05": "check not built yet (planned: CtrlFlow.tla, DESIGN 5.C05)",
    "C06": "check not built yet (planned: Ownership.tla, DESIGN 5.C06)",
    "C07": "check not built yet (planned: Parallel.tla, DESIGN 5.C07)",
    "C08": "check not built yet (planned: Lattice.tla / SubtypeCache.tla, DESIGN 5.C08)",
    "C09": "check not built yet (planned: CacheKey.tla, DESIGN 5.C09)",
    "C10": "check not built yet (planned, DESIGN 5.C10)",
    "C12": "check not built yet (planned: ArgBind/C3/Reach/Fold.tla, DESIGN 5.C12)",
    "C13": "check not built yet (planned: Errors.tla, DESIGN 5.C13)",
    "C17": "check not built yet (planned: Config.tla, DESIGN 5.C17)",
    "C18": "check not built yet (planned: ModuleMap.tla, DESIGN 5.C18)",
}
NOT_APPLICABLE = {
    "C11": "encode/decode fidelity of one pure function pair over all values: no state or transitions for a TLA+ specification to capture (DESIGN 6)",
    "C14": "relation between two implementations of one pure function (two parsers) over all source texts; nothing to model-check (DESIGN 6)",
    "C15": "64-bit numeric exactness of C primitives; TLC integers are 32-bit and a reduced-width model cannot be bound to the implementation (DESIGN 6)",
    "C19": "cross-tool round trip (stubgen -> mypy/stubtest) over generated modules: pure translation fidelity (DESIGN 6)",
    "C20": "quantifies over all mutated program texts; only generation at scale explores it, a specification adds nothing (DESIGN 6)",
}

def main():
    checks = []
    for pid in sorted(CHECKS):
        c = CHECKS[pid]
        checks.append({
            "property_id": pid,
            "quick_cmd": "bin/vcheck %s --tier quick" % pid,
            "thorough_cmd": "bin/vcheck %s --tier thorough" % pid,
            "evidence_file": "/verif/evidence/%s.json" % pid,
            "replay_cmd_template": "bin/vcheck %s --replay {path}" % pid,
            "engine": "tlc+replay",
            "level_claimed": {"category": c["category"], "text": c["text"], "design_ref": c["design_ref"]},
            "level_note": c["note"],
            "technique": c["technique"],
        })
    na = [{"property_id": p, "reason": r} for p, r in sorted({**{k: v for k, v in PLANNED.items() if k not in CHECKS}, **NOT_APPLICABLE}.items())]
    m = {
        "version": 1,
        "setup_cmd": "bin/setup",
        "hooks": {
            "guard": "PYTHON_MYPY_VERIF",
            "enable": "no source hooks: mypy runs interpreted from /repo and every linearization point is wrapped from outside by the drivers "
                      "(in subprocesses through harness/shim/sitecustomize.py, inert unless PYTHON_MYPY_VERIF=1)",
            "baseline_off_cmd": "cd /repo && /venv/bin/python -m pytest -ra -q -p no:cacheprovider --timeout=900 --continue-on-collection-errors",
            "source_commits": [],
            "add_only": True,
        },
        "engines": [{"name": "tlc+replay", "path": "/verif/harness", "serves_properties": sorted(CHECKS),
                     "kind_free_text": "TLA+ specifications under /verif/spec checked with TLC; behaviours replayed into / traces validated from the real code by /verif/harness/drivers"}],
        "checks": checks,
        "not_applicable": na,
        "notes": "Every check: exit 0 held, 1 + VIOLATION line, 2 machinery failure. Known findings: /verif/known_findings.json.",
    }
    with open(os.path.join(VERIF, "MANIFEST.json"), "w") as f:
        json.dump(m, f, indent=1); f.write("\n")

if __name__ == "__main__":
    main()
