"""Real parallel builds under a deterministic, policy-driven schedule (C07; DESIGN 5.C07).

run_parallel() forks a child that runs `build.build` with num_workers=N in-process (coordinator),
workers are real `python -m mypy.build_worker` subprocesses that load harness/shim/sitecustomize.py:
every worker reply waits at a gate.  The coordinator side waits until EVERY busy worker is at its
gate and then releases exactly one reply, chosen by the policy; `free_workers.pop()` is policy
driven too.  Recorded: Submit(worker, sccs) / Recv(worker, phase, sccs) / fresh SCCs, and for every
interface reply whether the replied interface hashes are already in the COMMITTED store.
"""
from __future__ import annotations

import glob
import json
import os
import sys
import time
from typing import Any

from harness.common import VERIF
from harness import world as W

SHIM = os.path.join(VERIF, "harness", "shim")


class Policy:
    """prio: list of [phase(1|2), scc_number] in preferred release order; workers: preferred worker per submit."""

    def __init__(self, prio: list[list[int]] | None = None, workers: list[int] | None = None, name: str = "") -> None:
        self.prio = {(p, s): i for i, (p, s) in enumerate(prio or [])}
        self.workers = list(workers or [])
        self.name = name

    def rank(self, phase: int, sccs: list[int]) -> tuple[int, int, int]:
        r = min([self.prio.get((phase, s), 10_000) for s in sccs] or [10_000])
        if self.name == "impl-first":
            return (0 if phase == 2 else 1, r, min(sccs or [0]))
        if self.name == "iface-first":
            return (0 if phase == 1 else 1, r, min(sccs or [0]))
        if self.name == "reverse":
            return (0, r, -min(sccs or [0]))
        return (0, r, min(sccs or [0]))


def _coord_child(root: str, sources: list[tuple[str, str]], opts: dict[str, Any], n: int, policy: Policy, gate: str,
                 worker_fault: str | None, wfd: int, coord_kill_msgs: int | None = None) -> None:
    out: dict[str, Any] = {"events": [], "commit_violations": [], "messages": [], "status": 0}
    try:
        os.chdir(root)
        import mypy.build as B
        from mypy.errors import CompileError
        from mypy.modulefinder import BuildSource

        B.WORKER_START_TIMEOUT = 60  # type: ignore[misc]  # loaded machines: starting a worker may take longer than 3 s
        ctx: dict[str, Any] = {"manager": None, "released": set(), "nsubmit": 0, "last_idx": None}

        def model_sccs(manager: Any, scc_ids: list[int]) -> list[int]:
            res = []
            for sid in scc_ids:
                for mid in manager.scc_by_id[sid].mod_ids:
                    if mid[0] == "m" and mid[1:].isdigit():
                        res.append(int(mid[1:]))
            return sorted(set(res))

        class PolicySet(set):  # type: ignore[type-arg]
            def pop(self) -> Any:
                k = ctx["nsubmit"]
                want = policy.workers[k] if k < len(policy.workers) else None
                if want is not None and want in self:
                    self.remove(want)
                    return want
                x = min(self)
                self.remove(x)
                return x

        orig_submit = B.BuildManager.submit_to_workers

        def submit_to_workers(self: Any, graph: Any, sccs: Any = None) -> None:
            ctx["manager"] = self
            if not isinstance(self.free_workers, PolicySet):
                self.free_workers = PolicySet(self.free_workers)
            return orig_submit(self, graph, sccs)

        B.BuildManager.submit_to_workers = submit_to_workers  # type: ignore[method-assign]
        orig_send = B.send

        def send(conn: Any, msg: Any) -> None:
            m = ctx["manager"]
            if m is not None and isinstance(msg, B.SccRequestMessage) and msg.scc_ids:
                idx = [i for i, w in enumerate(m.workers) if w.connected and w.conn is conn]
                out["events"].append({"ev": "submit", "w": idx[0] if idx else -1, "sccs": model_sccs(m, msg.scc_ids)})
                ctx["nsubmit"] += 1
            return orig_send(conn, msg)

        B.send = send  # type: ignore[assignment]
        orig_recv = B.BuildManager.receive_worker_message

        def receive_worker_message(self: Any, idx: int) -> Any:
            ctx["last_idx"] = idx
            return orig_recv(self, idx)

        B.BuildManager.receive_worker_message = receive_worker_message  # type: ignore[method-assign]
        orig_read = B.SccResponseMessage.read.__func__  # type: ignore[attr-defined]

        def read(cls: Any, buf: Any) -> Any:
            data = orig_read(cls, buf)
            m = ctx["manager"]
            ctx["nrecv"] = ctx.get("nrecv", 0) + 1
            if coord_kill_msgs is not None and ctx["nrecv"] >= coord_kill_msgs:
                # the coordinator process dies here (SIGKILL-like): its workers are left on their own
                with open(os.path.join(gate, "coordinator.killed"), "w") as kf:
                    kf.write(",".join(str(w.proc.pid) for w in m.workers))
                os._exit(9)
            ev = {"ev": "recv", "w": ctx["last_idx"], "ph": 1 if data.is_interface else 2, "sccs": model_sccs(m, data.scc_ids),
                  "blocker": data.blocker is not None}
            out["events"].append(ev)
            if data.is_interface and data.result:
                # the replied interfaces must already be durable: read the store through a FRESH connection
                store = B.create_metastore(m.options, parallel_worker=True)
                try:
                    for mid, res in data.result.items():
                        if res.interface_hash is None:
                            continue
                        st = m_graph[0][mid]
                        meta_file, _, _ = B.get_cache_names(mid, st.xpath, m.options)
                        try:
                            raw = store.read(meta_file)
                            if m.options.fixed_format_cache:
                                from librt.internal import ReadBuffer
                                from mypy.cache import CacheMeta
                                cm = CacheMeta.read(ReadBuffer(raw[2:]), "")
                                ih = cm.interface_hash.hex() if cm is not None else None
                            else:
                                ih = json.loads(raw).get("interface_hash")
                        except Exception as e:  # noqa
                            ih = "unreadable: %r" % (e,)
                        if ih != res.interface_hash:
                            out["commit_violations"].append({"mod": mid, "replied": res.interface_hash, "committed": ih})
                finally:
                    store.close()
            return data

        B.SccResponseMessage.read = classmethod(read)  # type: ignore[method-assign]
        m_graph: list[Any] = [None]
        orig_fss = B.find_stale_sccs

        def fss(sccs: Any, graph: Any, manager: Any) -> Any:
            m_graph[0] = graph
            ctx["manager"] = manager
            stale, fresh = orig_fss(sccs, graph, manager)
            for s in fresh:
                ms = model_sccs(manager, [s.id])
                if ms:
                    out["events"].append({"ev": "fresh", "sccs": ms})
            for s in stale:
                ms = model_sccs(manager, [s.id])
                if ms:
                    out["events"].append({"ev": "stale", "sccs": ms})
            return stale, fresh

        B.find_stale_sccs = fss  # type: ignore[assignment]
        orig_rtr = B.ready_to_read

        def ready_to_read(conns: Any, timeout: Any = None) -> Any:
            m = ctx["manager"]
            if m is None or any(c.buffer for c in conns):
                return orig_rtr(conns, timeout)
            pid_to_idx = {w.proc.pid: i for i, w in enumerate(m.workers)}
            t0 = time.time()
            while True:
                busy = [i for i in range(len(m.workers)) if i not in m.free_workers]
                pend: dict[int, tuple[str, str]] = {}
                for p in glob.glob(os.path.join(gate, "*.ready")):
                    if p in ctx["released"]:
                        continue
                    pid = int(os.path.basename(p).split(".")[0])
                    if pid in pid_to_idx:
                        pend[pid_to_idx[pid]] = (p, open(p).read())
                dead = [i for i in busy if m.workers[i].proc.poll() is not None]
                if all(i in pend or i in dead for i in busy) and (pend or dead):
                    break
                if time.time() - t0 > 90:
                    out["events"].append({"ev": "gate-timeout"})
                    return orig_rtr(conns, timeout)
                time.sleep(0.001)
            if not pend:
                return orig_rtr(conns, 5)
            if policy.name.startswith("burst"):
                # release ALL pending replies, and let the coordinator look only when all of them have arrived
                for idx, (p, txt) in pend.items():
                    ctx["released"].add(p)
                    open(p[:-6] + ".go", "w").close()
                want = [m.workers[idx].conn for idx in pend]
                t1 = time.time()
                while time.time() - t1 < 20:
                    got = orig_rtr(want, 0.05)
                    if len(got) == len(want):
                        break
                    time.sleep(0.002)
                return orig_rtr(conns, timeout)
            best = None
            for idx, (p, txt) in pend.items():
                parts = txt.split()
                phase = 1 if parts[0] == "iface" else 2
                ids = [int(x) for x in parts[1].split(",")] if len(parts) > 1 and parts[1] else []
                rk = policy.rank(phase, model_sccs(m, ids)) + (idx,)
                if best is None or rk < best[0]:
                    best = (rk, p)
            assert best is not None
            ctx["released"].add(best[1])
            open(best[1][:-6] + ".go", "w").close()
            return orig_rtr(conns, timeout)

        B.ready_to_read = ready_to_read  # type: ignore[assignment]

        o = W.make_options(root, **opts)
        o.native_parser = True
        o.local_partial_types = True
        o.num_workers = n
        o.fast_exit = False
        env = dict(os.environ, MYPY_ALT_LIB_PATH=root, PYTHON_MYPY_VERIF="1", VERIF_GATE_DIR=gate,
                   PYTHONPATH=SHIM + os.pathsep + os.environ.get("VERIF_REPO", "/repo"), PYTHONDONTWRITEBYTECODE="1")
        if worker_fault:
            env["VERIF_WORKER_FAULT"] = worker_fault
        srcs = [BuildSource(p, mname, None) for p, mname in sources]
        try:
            res = B.build(srcs, o, alt_lib_path=root, worker_env=env)
            out["messages"] = res.errors
            out["status"] = 1 if any(": error:" in x for x in res.errors) else 0
        except CompileError as e:
            out["messages"] = e.messages
            out["status"] = 2
    except BaseException as e:
        import traceback
        out["crash"] = "".join(traceback.format_exception(type(e), e, e.__traceback__))[-3000:]
        out["status"] = 3
    data = json.dumps(out).encode()
    with os.fdopen(wfd, "wb") as f:
        f.write(data)
    os._exit(0)


def run_parallel(root: str, **kw: Any) -> dict[str, Any]:
    """run_parallel_once, retried when the workers could not be started (an environment problem: the
    repository's own baseline lists its parallel tests as flaky for the same reason)."""
    for attempt in range(4):
        r = run_parallel_once(root, **kw)
        if r.get("crash") and ("Cannot connect to build worker" in r["crash"] or "Failed to establish connection" in r["crash"]):
            time.sleep(1.0 + attempt)
            continue
        return r
    r["machinery"] = "workers could not be started"
    return r


def run_parallel_once(root: str, *, cache_dir: str, n: int, policy: Policy | None = None, store: str = "fs", fmt: str = "ff",
                 sources: list[tuple[str, str]] | None = None, gate: str, worker_fault: str | None = None,
                 timeout: float = 180.0, coord_kill_msgs: int | None = None) -> dict[str, Any]:
    sources = sources or [("main.py", "__main__")]
    os.makedirs(gate, exist_ok=True)
    for p in glob.glob(os.path.join(gate, "*")):
        os.unlink(p)
    rfd, wfd = os.pipe()
    sys.stdout.flush(); sys.stderr.flush()
    pid = os.fork()
    if pid == 0:
        os.close(rfd)
        try:
            _coord_child(root, sources, dict(cache_dir=cache_dir, store=store, fmt=fmt), n, policy or Policy(), gate, worker_fault, wfd,
                         coord_kill_msgs)
        finally:
            os._exit(70)
    os.close(wfd)
    chunks = []
    with os.fdopen(rfd, "rb") as f:
        while True:
            b = f.read(1 << 16)
            if not b:
                break
            chunks.append(b)
    os.waitpid(pid, 0)
    data = b"".join(chunks)
    if not data:
        killed = os.path.exists(os.path.join(gate, "coordinator.killed"))
        if killed:
            # let the orphaned workers run into the closed connection and wait until they are gone (single-writer assumption)
            pids = [int(x) for x in open(os.path.join(gate, "coordinator.killed")).read().split(",") if x]
            t0 = time.time()
            while time.time() - t0 < 30:
                for p in glob.glob(os.path.join(gate, "*.ready")):
                    go = p[:-6] + ".go"
                    if not os.path.exists(go):
                        open(go, "w").close()
                alive = []
                for wp in pids:
                    try:
                        with open("/proc/%d/stat" % wp) as f:
                            if f.read().rsplit(")", 1)[1].split()[0] != "Z":
                                alive.append(wp)
                    except OSError:
                        pass
                if not alive:
                    break
                time.sleep(0.02)
        return {"messages": [], "status": 4, "crash": "coordinator died without result", "coordinator_killed": killed,
                "events": [], "commit_violations": []}
    return json.loads(data)


def run_sequential(root: str, *, cache_dir: str | None, store: str = "fs", fmt: str = "ff",
                   sources: list[tuple[str, str]] | None = None, tick: int = 0) -> dict[str, Any]:
    """The sequential build with the same parser / options parallel mode forces."""
    return W.run_build(root, cache_dir=cache_dir, store=store, fmt=fmt, sources=sources or [("main.py", "__main__")], record=False,
                       extra_opts={"native_parser": True, "local_partial_types": True}, tick=tick)


# ----------------------------------------------------------------------------- programs with a given SCC DAG
SHAPES = {
    "diamond": {1: [], 2: [1], 3: [1], 4: [2, 3], 5: [4], 6: [1]},
    "chain": {1: [], 2: [1], 3: [2], 4: [3], 5: [], 6: []},
    "fan": {1: [], 2: [1], 3: [1], 4: [1], 5: [1], 6: [2, 3, 4, 5]},
}


def write_program(root: str, shape: str, variant: dict[int, int] | None = None, tick: int = 1000, ign: Any = (), uw: bool = False) -> None:
    """Module m<k> per SCC k; each has an interface-phase and an implementation-phase error per dependency.
    variant[k] = 1 changes the return type of f<k> (its interface), so dependants see other errors."""
    deps = SHAPES[shape]
    variant = variant or {}
    # uw: module-level variables whose inferred type comes from an indirect dependency. They pull the indirect dependency
    # into the INTERFACE phase, which hides defects of the implementation-phase handling of indirect dependencies
    # (seed C07-a) and exposes others (seed C07-d): programs come in both flavours.
    os.makedirs(root, exist_ok=True)
    for m, ds in deps.items():
        ret = "str" if variant.get(m) else "int"
        val = "''" if variant.get(m) else "1"
        lines = ["import m%d" % d for d in ds]
        # re-export the classes of the dependencies' dependencies, and refer to them through the direct dependency only:
        # m gets INDIRECT dependencies on the modules two levels below
        # an attribute that is only defined inside a function nested in a method: its type has to be known after the
        # INTERFACE phase, because dependants may be checked by another worker
        lines.append("class C%d:\n    x: int = 0\n    def setup(self) -> None:\n        def inner() -> None:\n            self.size = 1\n        inner()" % m)
        for d in ds:
            lines.append("from m%d import f%d as f%d_from_%d" % (d, d, d, m))
        lines.append("def f%d() -> %s:\n    return %s" % (m, ret, val))
        for d in ds:
            lines.append("t%d_%d: str = m%d.f%d()" % (m, d, d, d))
            lines.append("def g%d_%d() -> str:\n    return m%d.C%d().x" % (m, d, d, d))
            lines.append("def k%d_%d() -> str:\n    return m%d.C%d().size" % (m, d, d, d))
            for dd in deps[d]:
                # through the name m<d> re-exports from m<dd>: an indirect dependency of m on m<dd>
                lines.append("def h%d_%d_%d() -> str:\n    return m%d.f%d_from_%d()" % (m, d, dd, d, dd, d))
                # ... and a module-level variable whose INFERRED type (part of m's interface) comes from that indirect dependency
                if uw:
                    lines.append("u%d_%d_%d = m%d.f%d_from_%d()" % (m, d, dd, d, dd, d))
                    for ddd in deps[dd]:
                        lines.append("w%d_%d_%d_%d: str = m%d.u%d_%d_%d" % (m, d, dd, ddd, d, d, dd, ddd))
        if variant.get(m) == 2:
            lines.append("def broken( -> None: pass")
        if variant.get(m) == 3:
            lines.insert(0, "import missing_mod_%d" % m)
        if m in ign:
            lines.insert(0, "# mypy: ignore-errors")      # diagnostics skipped, interface and dependencies still needed
        path = os.path.join(root, "m%d.py" % m)
        txt = "\n".join(lines) + "\n"
        old = open(path).read() if os.path.exists(path) else None
        if old != txt:
            with open(path, "w") as f:
                f.write(txt)
            t = 1_000_000 + (tick + m) * 10
            os.utime(path, (t, t))
    leaves = [m for m in deps if not any(m in ds for ds in deps.values())]
    main = "".join("import m%d\n" % m for m in leaves)
    mp = os.path.join(root, "main.py")
    if not os.path.exists(mp) or open(mp).read() != main:
        with open(mp, "w") as f:
            f.write(main)
        os.utime(mp, (1_000_000, 1_000_000))


# ----------------------------------------------------------------------------- free-running parallel build of an arbitrary program
def run_parallel_flags(root: str, *, flags: list[str], sources: list[tuple[Any, str]], n: int = 2, cache_dir: str | None = None) -> dict[str, Any]:
    """A real `-n N` build (coordinator in a forked child, real worker subprocesses, no gating: the schedule is whatever
    happens) with options built from command-line flags as the corpus drivers do. Retried when workers cannot be started."""
    def child(wfd: int) -> None:
        out: dict[str, Any] = {}
        try:
            os.chdir(root)
            import mypy.build as B
            from mypy.errors import CompileError
            from mypy.main import process_options
            from mypy.modulefinder import BuildSource

            B.WORKER_START_TIMEOUT = 60
            _, o = process_options(list(flags), require_targets=False)
            base = W.make_options(root, cache_dir)
            for k in ("use_builtins_fixtures", "incremental", "cache_dir", "sqlite_cache", "fixed_format_cache", "show_traceback"):
                setattr(o, k, getattr(base, k))
            if not any(x.startswith("--python-version") for x in flags):
                o.python_version = (3, 12)
            o.hide_error_codes = "--show-error-codes" not in flags
            o.native_parser = True
            o.local_partial_types = True
            o.num_workers = n
            o.fast_exit = False
            env = dict(os.environ, MYPY_ALT_LIB_PATH=root, PYTHONPATH=os.environ.get("VERIF_REPO", "/repo"), PYTHONDONTWRITEBYTECODE="1")
            env.pop("VERIF_GATE_DIR", None)
            srcs = [BuildSource(p, mname, None) for p, mname in sources]
            try:
                res = B.build(srcs, o, alt_lib_path=root, worker_env=env)
                out["messages"] = res.errors
                out["status"] = 1 if any(": error:" in x for x in res.errors) else 0
            except CompileError as e:
                out["messages"] = e.messages
                out["status"] = 2
        except BaseException as e:
            import traceback
            out["crash"] = "".join(traceback.format_exception(type(e), e, e.__traceback__))[-3000:]
            out["status"] = 3
            out.setdefault("messages", [])
        with os.fdopen(wfd, "wb") as f:
            f.write(json.dumps(out).encode())
        os._exit(0)

    r: dict[str, Any] = {}
    for attempt in range(4):
        rfd, wfd = os.pipe()
        sys.stdout.flush(); sys.stderr.flush()
        pid = os.fork()
        if pid == 0:
            os.close(rfd)
            try:
                child(wfd)
            finally:
                os._exit(70)
        os.close(wfd)
        with os.fdopen(rfd, "rb") as f:
            data = f.read()
        os.waitpid(pid, 0)
        r = json.loads(data) if data else {"messages": [], "status": 4, "crash": "coordinator died without result"}
        if r.get("crash") and ("Cannot connect to build worker" in r["crash"] or "Failed to establish connection" in r["crash"] or "coordinator died" in r["crash"]):
            time.sleep(1.0 + attempt)
            continue
        return r
    r["machinery"] = "workers could not be started"
    return r
