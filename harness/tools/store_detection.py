"""store_detection.py SEED PID LOGFILE [history]: write seeded/<SEED>/detection.json from the log of a check run against the seeded tree."""
import json, re, sys
sid, pid, f = sys.argv[1:4]
hist = sys.argv[4] if len(sys.argv) > 4 else None
t = open(f).read()
n = len(re.findall(r"^VIOLATION", t, re.M)); rc = int(re.search(r"rc=(\d+)", t).group(1))
d = {"seed": sid, "check": "bin/vcheck %s --tier quick" % pid, "how": "VERIF_REPO=<worktree with patch>", "exit": rc, "violations": n,
     "caught": rc == 1 and n > 0, "first": re.findall(r"^VIOLATION.*", t, re.M)[:3]}
if hist:
    d["history"] = hist
json.dump(d, open("/verif/seeded/%s/detection.json" % sid, "w"), indent=1)
print(sid, d["caught"], n)
