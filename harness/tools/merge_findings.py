"""Development-time helper: fold findings.d/*.json into the single committed known_findings.json (key-unique)."""
import glob, json, os
VERIF = os.path.dirname(os.path.dirname(os.path.dirname(os.path.abspath(__file__))))
kf = json.load(open(os.path.join(VERIF, "known_findings.json")))
have = {(e["property"], e["key"]) for e in kf["known"]}
for f in sorted(glob.glob(os.path.join(VERIF, "findings.d", "*.json"))):
    for e in json.load(open(f)).get("known", []):
        if (e["property"], e["key"]) not in have:
            kf["known"].append(e); have.add((e["property"], e["key"]))
kf["known"].sort(key=lambda e: (e["property"], e["key"]))
json.dump(kf, open(os.path.join(VERIF, "known_findings.json"), "w"), indent=1)
print(len(kf["known"]), "known;", len(kf["fixed"]), "fixed")
