"""Development-time helper (never run by a check): turn the replay files a check wrote for property PID into
entries of findings.d/PID.json, after the lead has judged them genuine.  usage: collect_findings.py PID [filter-substring]"""
import glob, json, os, sys
VERIF = os.path.dirname(os.path.dirname(os.path.dirname(os.path.abspath(__file__))))
pid = sys.argv[1]
flt = sys.argv[2] if len(sys.argv) > 2 else ""
path = os.path.join(VERIF, "findings.d", pid + ".json")
cur = json.load(open(path)) if os.path.exists(path) else {"known": []}
have = {e["key"] for e in cur["known"]}
n = 0
for f in sorted(glob.glob(os.path.join(VERIF, "replays", pid, "*.json"))):
    d = json.load(open(f))
    if d["key"] in have or flt not in d["key"] + d.get("what", ""):
        continue
    cur["known"].append({"property": pid, "key": d["key"], "what": d.get("what", "")[:400]})
    have.add(d["key"]); n += 1
cur["known"].sort(key=lambda e: e["key"])
json.dump(cur, open(path, "w"), indent=1)
print("added", n, "total", len(cur["known"]))
