#!/bin/sh
# confirm_seed.sh <worktree> <seed-id> [pytest args...]: confirm a seeded change (demo fails with it, passes without), store it under /verif/seeded/<id>/
wt="$1"; id="$2"; shift 2
dst=/verif/seeded/$id; mkdir -p "$dst"
cd "$wt" || exit 2
git diff -- . ':!patch.diff' ':!demo.py' ':!meta.json' > "$dst/patch.diff"
cp demo.py meta.json "$dst/" 2>/dev/null
PYTHONPATH="$wt" timeout 900 /venv/bin/python demo.py > "$dst/demo_with_change.log" 2>&1; with=$?
git apply -R "$dst/patch.diff" || { echo "cannot reverse patch"; exit 2; }
PYTHONPATH="$wt" timeout 900 /venv/bin/python demo.py > "$dst/demo_clean.log" 2>&1; clean=$?
git apply "$dst/patch.diff"
echo "demo exit with change: $with ; clean: $clean"
if [ $# -gt 0 ]; then
  timeout 3000 /venv/bin/python -m pytest -q -p no:cacheprovider -n 6 "$@" 2>&1 | tail -3 > "$dst/tests.log"; cat "$dst/tests.log"
fi
echo "{\"demo_exit_with_change\": $with, \"demo_exit_clean\": $clean}" > "$dst/confirmed.json"
