SPECIFICATION Spec
CONSTANT FSel <- SampleLeak
INVARIANT NoLeak
INVARIANT NoDoubleRelease
INVARIANT NoUndefRead
INVARIANT NoUseAfterRelease
INVARIANT Classified
