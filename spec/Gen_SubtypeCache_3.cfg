SPECIFICATION Spec
CONSTANTS
  KeyOf <- BuildSubtypeKind
  Ask = "single"
  MaxQ = 3
  MaxR = 0
INVARIANT Emit
