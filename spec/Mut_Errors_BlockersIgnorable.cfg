SPECIFICATION Spec
CONSTANTS
  Codes <- McCodes
  NameOf <- McNameOf
  SubOf <- McSubOf
  DefaultOn <- McDefaultOn
  Renamed <- McRenamed
  HideLink <- McHideLink
  Slots <- SlotsB
  IgnChoices <- IgnB
  SkipChoices <- SkipNone
  CodeCfgs <- CodesB
  FlagCfgs <- FlagsB
  Alphabet <- AlphaB
  MaxReports = 2
  DisabledLeavesUnused = TRUE
  SubCodesMatch = TRUE
  BlockersBypass = FALSE
  AssumeNoCrossCodeDups = TRUE
  NotesInheritOrigin = TRUE
INVARIANT Exactness
INVARIANT DisableExact
INVARIANT OutputExactness
INVARIANT AttachedExact
INVARIANT UnusedExact
INVARIANT ExitCode
