------------------------------- MODULE Fold -------------------------------
(* The expression grammar mypy folds statically (mypy/constant_fold.py constant_fold_expr /
   constant_fold_binary_op / constant_fold_unary_op, reused by mypyc/irbuild/constant_fold.py)
   and -- for the small-integer part of it -- the value Python computes at run time.

   Expressions grow one production at a time (spine-shaped trees: at a binary node one operand
   is an operand token):
     Leaf(t)       an operand token: a literal (possibly signed), True / False, or a name bound to
                   a Final constant / to an ordinary variable
     Unary(op)     op e            op in - ~ +
     BinL(op, t)   e op t          op in + - * / // % & | ^ << >> **
     BinR(op, t)   t op e
   Operand tokens are abstract here; the harness maps each to a concrete boundary literal
   (0, +-1, +-2^k and neighbours for k in 31 32 63 64, 2^1023, 2^1024, 0.0, -0.0, 1e308, 1e309,
   "", "ab", 1j, b"ab", ...), so TLC's 32-bit integers do not limit the operands.

   Val(e) is Python's run-time value where the specification knows it: operands that are small
   ints or bools, results that stay small.  Python rules transcribed: floor division and modulo
   take the sign of the divisor; << and >> by a negative count raise ValueError; division and
   modulo by zero raise ZeroDivisionError; ** with a negative exponent leaves the integers
   (0 ** -n raises); - ~ + on a bool give an int; & | ^ of two bools give a bool; bitwise
   operators see negative ints in infinite two's complement.  Everywhere else Val abstains and
   CPython's eval is the only oracle.
*)
EXTENDS Integers, Sequences, FiniteSets, TLC, Json

CONSTANTS Toks,        \* operand tokens of this configuration
          BinOps, UnOps,
          MaxDepth,    \* operator nesting depth
          FloorDiv     \* TRUE: Python's floor division (FALSE = C-style truncation: the specification-level mutant)

VARIABLES e
vars == <<e>>

NoExpr == [k |-> "none"]
LeafE(t) == [k |-> "leaf", t |-> t]
UnE(op, x) == [k |-> "un", op |-> op, x |-> x]
BinE(op, l, r) == [k |-> "bin", op |-> op, l |-> l, r |-> r]
RECURSIVE Depth(_)
Depth(x) == CASE x.k = "leaf" -> 0
              [] x.k = "un" -> 1 + Depth(x.x)
              [] x.k = "bin" -> 1 + (IF Depth(x.l) > Depth(x.r) THEN Depth(x.l) ELSE Depth(x.r))
              [] OTHER -> 0

Init == e = NoExpr
Leaf == e.k = "none" /\ \E t \in Toks : e' = LeafE(t)
Unary == e.k # "none" /\ Depth(e) < MaxDepth /\ \E op \in UnOps : e' = UnE(op, e)
BinL == e.k # "none" /\ Depth(e) < MaxDepth /\ \E op \in BinOps, t \in Toks : e' = BinE(op, e, LeafE(t))
BinR == e.k # "none" /\ Depth(e) < MaxDepth /\ \E op \in BinOps, t \in Toks : e' = BinE(op, LeafE(t), e)
Next == Leaf \/ Unary \/ BinL \/ BinR
Spec == Init /\ [][Next]_vars

\* ------------------------------------------------------------------ run-time values (small-int part)
Abs(n) == IF n < 0 THEN -n ELSE n
Limit == 1048576       \* 2^20: the specification abstains beyond
IntV(n) == [t |-> "int", v |-> n]
BoolV(b) == [t |-> "bool", v |-> IF b THEN 1 ELSE 0]
Raise == [t |-> "raise", v |-> 0]
Abstain == [t |-> "abstain", v |-> 0]
TokVal(t) == CASE t = "i0" -> IntV(0) [] t = "i1" -> IntV(1) [] t = "i2" -> IntV(2) [] t = "i3" -> IntV(3)
               [] t = "i7" -> IntV(7) [] t = "i64" -> IntV(64)
               [] t = "im1" -> IntV(-1) [] t = "im2" -> IntV(-2) [] t = "im7" -> IntV(-7)
               [] t = "bT" -> BoolV(TRUE) [] t = "bF" -> BoolV(FALSE)
               [] t = "nFI" -> IntV(3) [] t = "nNV" -> IntV(3) [] t = "nFN" -> IntV(-2) [] t = "nFB" -> BoolV(TRUE)
               [] OTHER -> Abstain
Small(n) == IF Abs(n) > Limit THEN Abstain ELSE IntV(n)
\* Python: q = floor(a / b), r = a - q*b has the sign of b
PyFloorDiv(a, b) == IF FloorDiv THEN (IF b > 0 THEN a \div b ELSE (-a) \div (-b))
                    ELSE (IF (a < 0) = (b < 0) THEN Abs(a) \div Abs(b) ELSE -(Abs(a) \div Abs(b)))
PyMod(a, b) == a - b * PyFloorDiv(a, b)
Mul(a, b) == IF a = 0 \/ b = 0 THEN IntV(0) ELSE IF Abs(b) > Limit \div Abs(a) THEN Abstain ELSE Small(a * b)
RECURSIVE PowG(_, _)     \* -1 = too big
PowG(b, n) == IF n = 0 THEN 1
              ELSE LET p == PowG(b, n - 1) IN
                   IF p = -1 THEN -1 ELSE IF p > Limit \div b THEN -1 ELSE p * b
Pow(b, n) == IF n = 0 THEN IntV(1)
             ELSE IF b = 0 THEN IntV(0) ELSE IF b = 1 THEN IntV(1)
             ELSE IF b = -1 THEN IntV(IF n % 2 = 0 THEN 1 ELSE -1)
             ELSE IF n > 24 THEN Abstain
             ELSE LET p == PowG(Abs(b), n) IN
                  IF p = -1 THEN Abstain ELSE IntV(IF b < 0 /\ n % 2 = 1 THEN -p ELSE p)
Pow2(n) == PowG(2, n)
Shl(a, n) == IF a = 0 THEN IntV(0) ELSE IF n > 20 THEN Abstain ELSE Mul(a, Pow2(n))
Shr(a, n) == IF n > 20 THEN IntV(IF a < 0 THEN -1 ELSE 0) ELSE IntV(a \div Pow2(n))
RECURSIVE BitAnd(_, _), BitOr(_, _), BitXor(_, _)
BitAnd(a, b) == IF a = 0 \/ b = 0 THEN 0 ELSE IF a = -1 THEN b ELSE IF b = -1 THEN a
                ELSE (a % 2) * (b % 2) + 2 * BitAnd(a \div 2, b \div 2)
BitOr(a, b) == IF a = 0 THEN b ELSE IF b = 0 THEN a ELSE IF a = -1 \/ b = -1 THEN -1
               ELSE (IF a % 2 = 1 \/ b % 2 = 1 THEN 1 ELSE 0) + 2 * BitOr(a \div 2, b \div 2)
BitXor(a, b) == IF a = 0 THEN b ELSE IF b = 0 THEN a ELSE IF a = -1 THEN -b - 1 ELSE IF b = -1 THEN -a - 1
                ELSE (((a % 2) + (b % 2)) % 2) + 2 * BitXor(a \div 2, b \div 2)

UnVal(op, x) == IF x.t \in {"raise", "abstain"} THEN x
                ELSE CASE op = "-" -> IntV(-x.v) [] op = "+" -> IntV(x.v) [] op = "~" -> IntV(-x.v - 1)
BinVal(op, x, y) ==
  IF x.t = "raise" \/ y.t = "raise" THEN Raise
  ELSE IF x.t = "abstain" \/ y.t = "abstain" THEN Abstain
  ELSE LET a == x.v
           b == y.v
           bools == x.t = "bool" /\ y.t = "bool"
       IN CASE op = "+" -> Small(a + b) [] op = "-" -> Small(a - b) [] op = "*" -> Mul(a, b)
            [] op = "/" -> (IF b = 0 THEN Raise ELSE Abstain)
            [] op = "//" -> (IF b = 0 THEN Raise ELSE IntV(PyFloorDiv(a, b)))
            [] op = "%" -> (IF b = 0 THEN Raise ELSE IntV(PyMod(a, b)))
            [] op = "&" -> (IF bools THEN BoolV(BitAnd(a, b) = 1) ELSE IntV(BitAnd(a, b)))
            [] op = "|" -> (IF bools THEN BoolV(BitOr(a, b) = 1) ELSE IntV(BitOr(a, b)))
            [] op = "^" -> (IF bools THEN BoolV(BitXor(a, b) = 1) ELSE IntV(BitXor(a, b)))
            [] op = "<<" -> (IF b < 0 THEN Raise ELSE Shl(a, b))
            [] op = ">>" -> (IF b < 0 THEN Raise ELSE Shr(a, b))
            [] op = "**" -> (IF b < 0 THEN (IF a = 0 THEN Raise ELSE Abstain) ELSE Pow(a, b))
RECURSIVE Val(_)
Val(x) == CASE x.k = "leaf" -> TokVal(x.t)
            [] x.k = "un" -> UnVal(x.op, Val(x.x))
            [] x.k = "bin" -> BinVal(x.op, Val(x.l), Val(x.r))

\* ------------------------------------------------------------------ laws of Python's integer arithmetic
IsNum(v) == v.t \in {"int", "bool"}
TopBin == e.k # "none" /\ e.k = "bin" /\ IsNum(Val(e.l)) /\ IsNum(Val(e.r))
\* a == (a // b) * b + a % b, and the remainder has the divisor's sign and is smaller than it
DivModLaw == (TopBin /\ Val(e.r).v # 0) =>
                LET a == Val(e.l).v
                    b == Val(e.r).v
                    q == PyFloorDiv(a, b)
                    r == PyMod(a, b)
                IN a = q * b + r /\ Abs(r) < Abs(b) /\ (r = 0 \/ (r > 0) = (b > 0))
\* a & b + a | b == a + b,  a ^ b == (a | b) - (a & b),  ~a == -a - 1 (two's complement)
BitLaw == TopBin => LET a == Val(e.l).v
                        b == Val(e.r).v
                    IN /\ BitAnd(a, b) + BitOr(a, b) = a + b
                       /\ BitXor(a, b) = BitOr(a, b) - BitAnd(a, b)
                       /\ BitAnd(a, -a - 1) = 0
\* (a << n) >> n == a
ShiftLaw == (TopBin /\ Val(e.r).v >= 0 /\ Val(e.r).v <= 10 /\ Abs(Val(e.l).v) <= 1024) =>
               LET a == Val(e.l).v
                   n == Val(e.r).v
               IN Shl(a, n).t = "int" /\ Shr(Shl(a, n).v, n).v = a
\* an operation on operands whose evaluation raises, raises
RaisePropagates == (e.k # "none" /\ e.k = "bin" /\ (Val(e.l).t = "raise" \/ Val(e.r).t = "raise")) => Val(e).t = "raise"

\* ------------------------------------------------------------------ emission (Gen configs)
Emit == e.k # "none" => PrintT(<<"E", ToJson([e |-> e, s |-> Val(e)])>>)
===========================================================================
