---- MODULE MC_Config ----
EXTENDS Config
\* component alphabet (ASCII order) and the observed modules: all names of depth 1..3, in the order
\* a b c  a.a a.b a.c b.a ... c.c  a.a.a a.a.b ... c.c.c   (the driver rebuilds the same order and
\* cross-checks it against the MODS line printed below)
L3 == <<"a", "b", "c">>
D1 == [i \in 1..3 |-> <<L3[i]>>]
Ext(ss) == [k \in 1..(Len(ss) * 3) |-> Append(ss[((k - 1) \div 3) + 1], L3[((k - 1) % 3) + 1])]
Mods39 == <<<<"a">>, <<"b">>, <<"c">>, <<"a", "a">>, <<"a", "b">>, <<"a", "c">>, <<"b", "a">>, <<"b", "b">>, <<"b", "c">>, <<"c", "a">>, <<"c", "b">>, <<"c", "c">>, <<"a", "a", "a">>, <<"a", "a", "b">>, <<"a", "a", "c">>, <<"a", "b", "a">>, <<"a", "b", "b">>, <<"a", "b", "c">>, <<"a", "c", "a">>, <<"a", "c", "b">>, <<"a", "c", "c">>, <<"b", "a", "a">>, <<"b", "a", "b">>, <<"b", "a", "c">>, <<"b", "b", "a">>, <<"b", "b", "b">>, <<"b", "b", "c">>, <<"b", "c", "a">>, <<"b", "c", "b">>, <<"b", "c", "c">>, <<"c", "a", "a">>, <<"c", "a", "b">>, <<"c", "a", "c">>, <<"c", "b", "a">>, <<"c", "b", "b">>, <<"c", "b", "c">>, <<"c", "c", "a">>, <<"c", "c", "b">>, <<"c", "c", "c">>>>
\* the section patterns:  a  a.b  a.*  a.b.*  *.b  a.*.b   (DESIGN 5.C17 has a.*.c for the last one; a.*.b
\* is used instead so that two unstructured patterns can match the same module -- "later wins")
PatsA == { <<"a">>, <<"a", "b">>, <<"a", "*">>, <<"a", "b", "*">>, <<"*", "b">>, <<"a", "*", "b">> }
\* a second alphabet (thorough tier): trailing stars on unstructured patterns, deeper structured
\* wildcards, a second leading-star pattern, a concrete leaf
PatsB == { <<"a", "b", "c">>, <<"b", "*">>, <<"a", "b", "c", "*">>, <<"a", "*", "b", "*">>, <<"a", "*", "b">>, <<"*", "c">>, <<"b", "*", "*">> }
\* partition of the emission runs by the pattern of the first section
First1 == { <<"a">> }
First2 == { <<"a", "b">> }
First3 == { <<"a", "*">> }
First4 == { <<"a", "b", "*">> }
First5 == { <<"*", "b">> }
First6 == { <<"a", "*", "b">> }
Vals2 == <<"p", "q">>
Vals3 == <<"p", "q", "r">>
ASSUME PrintT(<<"MODS", ToJson([i \in DOMAIN Mods39 |-> Dotted(Mods39[i])])>>)
====
