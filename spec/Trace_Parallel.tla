-------------------------- MODULE Trace_Parallel --------------------------
(* Trace validation of the coordinator's event stream of real parallel builds against the
   scheduling rules of Parallel.tla.  Events (recorded by harness/par.py after each step):
     stale S / fresh S        find_stale_sccs verdict for the SCCs S (model numbering; {} = other modules)
     submit w S               SccRequestMessage with batch S sent to worker w
     recv w ph S              SccResponseMessage (ph 1 interface, 2 implementation) of batch S read from worker w
     end status
   Checked on every step: a worker gets a batch only when free; an SCC is submitted at most once, only
   after find_stale_sccs declared it stale, and only when all its dependencies are done (interface reply
   received, or fresh); replies arrive per worker in the order interface, implementation, for exactly
   the batch that was submitted; at the end every worker is free and every stale SCC got both replies.
*)
EXTENDS Naturals, Sequences, FiniteSets, TLC, Json, IOUtils
Input == JsonDeserialize(IOEnv.TRACE_FILE)
Traces == Input.traces
Progress == Input.progress
VARIABLES tid, l, free, wbatch, wphase, done, declared, submitted, impl
vars == <<tid, l, free, wbatch, wphase, done, declared, submitted, impl>>
T == Traces[tid]
E == T.ev[l]
ToSet(s) == {s[i] : i \in 1..Len(s)}
Deps(s) == ToSet(T.deps[s])          \* T.deps: sequence indexed by SCC number of sequences of dependencies
Init == /\ tid \in 1..Len(Traces) /\ l = 1
        /\ free = 0..(Traces[tid].n - 1) /\ wbatch = [w \in 0..(Traces[tid].n - 1) |-> {}]
        /\ wphase = [w \in 0..(Traces[tid].n - 1) |-> 0]
        /\ done = {} /\ declared = {} /\ submitted = {} /\ impl = {}
Is(e) == l <= Len(T.ev) /\ E.ev = e /\ l' = l + 1
S == ToSet(E.sccs)
DeclStale == /\ Is("stale") /\ \A s \in S : Deps(s) \subseteq done
             /\ declared' = declared \cup S /\ UNCHANGED <<tid, free, wbatch, wphase, done, submitted, impl>>
DeclFresh == /\ Is("fresh") /\ \A s \in S : Deps(s) \subseteq done
             /\ done' = done \cup S /\ UNCHANGED <<tid, free, wbatch, wphase, declared, submitted, impl>>
Submit == /\ Is("submit") /\ E.w \in free
          /\ S \subseteq declared /\ S \cap submitted = {}
          /\ \A s \in S : Deps(s) \subseteq done
          /\ free' = free \ {E.w} /\ wbatch' = [wbatch EXCEPT ![E.w] = S] /\ wphase' = [wphase EXCEPT ![E.w] = 1]
          /\ submitted' = submitted \cup S /\ UNCHANGED <<tid, done, declared, impl>>
RecvIface == /\ Is("recv") /\ E.ph = 1 /\ E.w \notin free /\ wphase[E.w] = 1 /\ S = wbatch[E.w]
             /\ done' = done \cup S /\ wphase' = [wphase EXCEPT ![E.w] = 2]
             /\ UNCHANGED <<tid, free, wbatch, declared, submitted, impl>>
RecvImpl == /\ Is("recv") /\ E.ph = 2 /\ E.w \notin free /\ wphase[E.w] = 2 /\ S = wbatch[E.w]
            /\ impl' = impl \cup S /\ free' = free \cup {E.w} /\ wphase' = [wphase EXCEPT ![E.w] = 0]
            /\ wbatch' = [wbatch EXCEPT ![E.w] = {}]
            /\ UNCHANGED <<tid, done, declared, submitted>>
End == /\ Is("end")
       /\ (E.status # 2 => /\ free = 0..(T.n - 1) /\ submitted = declared /\ impl = submitted /\ declared \subseteq done)
       /\ UNCHANGED <<tid, free, wbatch, wphase, done, declared, submitted, impl>>
Next == DeclStale \/ DeclFresh \/ Submit \/ RecvIface \/ RecvImpl \/ End
Spec == Init /\ [][Next]_vars
Accepted == l = Len(T.ev) + 1
Report == /\ (Accepted => PrintT(<<"ACC", tid>>))
          /\ (Progress => PrintT(<<"AT", tid, l>>))
===========================================================================
