------------------------- MODULE DmypyServe -------------------------
(* mypy/dmypy_server.py Server.serve: one request per accepted connection, served
   synchronously; the IPCServer object -- and with it the reassembly state `buffer`,
   `message_size` of mypy/ipc.py -- is reused for every connection (`with server:`).

   Clients are the environment.  A client plan is [cls, sent, waits]:
     cls    what the payload is: "status" "check" "stop" (well-formed requests),
            "garbage" (not JSON), "nondict" (JSON, not an object), "nocmd", "cmdnotstr",
            "unknown" (well-formed JSON objects that are not valid requests)
     sent   how many bytes of the H+P byte frame reach the server before the client closes
            (0 = connect and close; H+P = complete), or Oversize: the header announces one
            byte more than is ever sent, or TrailBase+k: the complete frame followed, in the same
            write, by the first k bytes of a second frame (a client that pipelines or misframes)
     waits  a client that sent a complete frame either waits for the reply or closes at once

   Server actions, one per step of serve():
     Accept        `with server:` (IPCServer.__enter__ -> accept)
     Recv          one recv() of read_bytes
     Dispatch      receive() got a frame: json.loads, dict check, command lookup -> "run"/"reply"/error
     ReceiveFails  receive() raises OSError (EOF without a frame, non-JSON, non-dict)
     Run           run_command
     Reply         final send() (+ sys.exit for stop)
   Edit is the user changing the checked file between requests.

   CONSTANTS describe the code as it is (they are read off the code by the conformance
   harness, and the FALSE settings are kept as specification-level mutants):
     CatchReceiveError  serve() keeps serving when receive() raises OSError
     ResetOnAccept      a new connection starts with empty buffer / message_size None
     ResetOnEof         (not what the code does) the reassembly state is dropped where EOF is met instead:
                        bytes that FOLLOW a complete frame survive into the next connection
     CatchSendError     the final send() tolerates a client that hung up
*)
EXTENDS Naturals, Sequences, FiniteSets, TLC, Json
CONSTANTS CatchReceiveError, ResetOnAccept, ResetOnEof, CatchSendError, MaxConns, MaxEdits, Classes
H == 4
P == 2
L == H + P
NoSize == 999
Oversize == 99
TrailBase == 100
TrailLens == {2, H + 1}                                \* part of a header; a header and one payload byte
TrailClasses == {"status", "check"}
IsComplete(n) == n = L \/ n > TrailBase               \* the server receives this client's whole request
GoodCmds == {"status", "check", "stop"}
ReplyingClasses == {"nocmd", "cmdnotstr", "unknown"}   \* answered with {"error": ...}
RaisingClasses == {"garbage", "nondict"}               \* receive() raises OSError

VARIABLES spc,        \* "accept" "read" "run" "reply" "exited"
          status,     \* the status file exists
          buffer, msgSize,   \* IPCServer reassembly state
          wire,       \* bytes of the current connection not yet read
          peerOpen,   \* the client has not closed its end
          conn,       \* number of connections accepted so far
          plan,       \* plan of the current client
          cur,        \* [cls, intact] of the request being served
          ver, edits, \* version of the checked file
          stopped,    \* a stop command was executed
          obs,        \* what each client observed: sequence of [conn, reply]
          h           \* history (Gen config only; hidden by VIEW elsewhere)
vars == <<spc, status, buffer, msgSize, wire, peerOpen, conn, plan, cur, ver, edits, stopped, obs, h>>
view == <<spc, status, buffer, msgSize, wire, peerOpen, conn, plan, cur, ver, edits, stopped, obs>>

NoPlan == [cls |-> "none", sent |-> 0, waits |-> FALSE]
NoCur == [cls |-> "none", intact |-> TRUE]
\* the bytes client c sends for its plan
HdrBytes(n) == <<[h |-> 0], [h |-> 0], [h |-> 0], [h |-> n]>>
PayBytes(c) == [k \in 1..P |-> [c |-> c, o |-> k]]
TrailBytes(c, k) == SubSeq(HdrBytes(P) \o [j \in 1..P |-> [c |-> c, o |-> P + j]], 1, k)
Bytes(c, p) == IF p.sent = Oversize THEN HdrBytes(P + 1) \o PayBytes(c)
               ELSE IF p.sent > TrailBase THEN HdrBytes(P) \o PayBytes(c) \o TrailBytes(c, p.sent - TrailBase)
               ELSE SubSeq(HdrBytes(P) \o PayBytes(c), 1, p.sent)
Plans == [cls : Classes, sent : 0..(L - 1), waits : {FALSE}]
         \cup [cls : Classes, sent : {Oversize}, waits : {FALSE}]
         \cup [cls : Classes, sent : {L}, waits : BOOLEAN]
         \cup [cls : Classes \cap TrailClasses, sent : {TrailBase + k : k \in TrailLens}, waits : {TRUE}]
\* classes only matter for complete frames: canonical class for incomplete ones
Canon(p) == IF IsComplete(p.sent) THEN p ELSE [p EXCEPT !.cls = "status"]

Init == /\ spc = "accept" /\ status = TRUE /\ buffer = <<>> /\ msgSize = NoSize /\ wire = <<>>
        /\ peerOpen = FALSE /\ conn = 0 /\ plan = NoPlan /\ cur = NoCur /\ ver = 0 /\ edits = 0
        /\ stopped = FALSE /\ obs = <<>> /\ h = <<>>

Edit == /\ spc = "accept" /\ edits < MaxEdits /\ edits' = edits + 1 /\ ver' = 1 - ver
        /\ h' = Append(h, [ev |-> "edit", cls |-> "", sent |-> 0, waits |-> FALSE, reply |-> "", alive |-> TRUE, status |-> status])
        /\ UNCHANGED <<spc, status, buffer, msgSize, wire, peerOpen, conn, plan, cur, stopped, obs>>

Accept == /\ spc = "accept" /\ conn < MaxConns
          /\ \E p \in Plans : /\ p = Canon(p)
                              /\ plan' = p /\ wire' = Bytes(conn + 1, p)
                              /\ peerOpen' = (IsComplete(p.sent) /\ p.waits)
          /\ conn' = conn + 1 /\ spc' = "read" /\ cur' = NoCur
          /\ IF ResetOnAccept THEN buffer' = <<>> /\ msgSize' = NoSize ELSE UNCHANGED <<buffer, msgSize>>
          /\ UNCHANGED <<status, ver, edits, stopped, obs, h>>

HaveHeader == Len(buffer) >= H
SizeNow == IF msgSize = NoSize THEN buffer[H].h ELSE msgSize
HaveFrame == HaveHeader /\ Len(buffer) >= SizeNow + H
Recv == /\ spc = "read" /\ ~HaveFrame /\ Len(wire) > 0
        /\ \E n \in 1..Len(wire) : buffer' = buffer \o SubSeq(wire, 1, n) /\ wire' = SubSeq(wire, n + 1, Len(wire))
        /\ msgSize' = IF Len(buffer') >= H /\ msgSize = NoSize THEN buffer'[H].h ELSE msgSize
        /\ UNCHANGED <<spc, status, peerOpen, conn, plan, cur, ver, edits, stopped, obs, h>>

\* what the client of this connection sees when the server goes away / closes without a reply
Observe(reply) == /\ obs' = Append(obs, [conn |-> conn, reply |-> reply, cls |-> plan.cls, sent |-> plan.sent,
                                           waits |-> plan.waits, ver |-> ver])
                  /\ h' = Append(h, [ev |-> "conn", cls |-> plan.cls, sent |-> plan.sent, waits |-> plan.waits,
                                     reply |-> reply, alive |-> spc' # "exited", status |-> status'])

\* receive() returned a frame
Dispatch == /\ spc = "read" /\ HaveFrame
            /\ LET pay == SubSeq(buffer, H + 1, H + SizeNow)
                   intact == pay = PayBytes(conn)                     \* exactly this client's own request
                   cls == IF intact THEN plan.cls ELSE "garbage"      \* mixed-up bytes do not parse
               IN /\ buffer' = SubSeq(buffer, H + SizeNow + 1, Len(buffer)) /\ msgSize' = NoSize
                  /\ cur' = [cls |-> cls, intact |-> intact]
                  /\ IF cls \in RaisingClasses
                     THEN IF CatchReceiveError
                          THEN spc' = "accept" /\ status' = status
                          ELSE spc' = "exited" /\ status' = FALSE
                     ELSE spc' = (IF cls \in GoodCmds THEN "run" ELSE "reply") /\ status' = status
                  /\ IF cls \in RaisingClasses THEN Observe("closed") ELSE UNCHANGED <<obs, h>>
            /\ UNCHANGED <<wire, peerOpen, conn, plan, ver, edits, stopped>>

\* recv() returned b"" before a frame was complete: receive() raises OSError("No data received")
ReceiveFails == /\ spc = "read" /\ ~HaveFrame /\ Len(wire) = 0 /\ ~peerOpen
                /\ IF CatchReceiveError THEN spc' = "accept" /\ status' = status
                                        ELSE spc' = "exited" /\ status' = FALSE
                /\ Observe("closed")
                /\ IF ResetOnEof THEN buffer' = <<>> /\ msgSize' = NoSize ELSE UNCHANGED <<buffer, msgSize>>
                /\ UNCHANGED <<wire, peerOpen, conn, plan, cur, ver, edits, stopped>>

Run == /\ spc = "run"
       /\ IF cur.cls = "stop" THEN status' = FALSE /\ stopped' = TRUE      \* cmd_stop unlinks the status file first
                              ELSE UNCHANGED <<status, stopped>>
       /\ spc' = "reply"
       /\ UNCHANGED <<buffer, msgSize, wire, peerOpen, conn, plan, cur, ver, edits, obs, h>>

ReplyText == IF cur.cls = "check" THEN (IF ver = 0 THEN "check0" ELSE "check1")
             ELSE IF cur.cls \in ReplyingClasses THEN "error" ELSE cur.cls
Reply == /\ spc = "reply"
         /\ IF ~peerOpen /\ ~CatchSendError
            THEN spc' = "exited" /\ status' = FALSE
            ELSE /\ spc' = IF cur.cls = "stop" THEN "exited" ELSE "accept"
                 /\ status' = status
         /\ Observe(IF peerOpen THEN ReplyText ELSE "unread")
         /\ peerOpen' = FALSE
         /\ UNCHANGED <<buffer, msgSize, wire, conn, plan, cur, ver, edits, stopped>>

Next == Edit \/ Accept \/ Recv \/ Dispatch \/ ReceiveFails \/ Run \/ Reply
Spec == Init /\ [][Next]_vars

\* ------------------------------------------------------------------ properties
\* the daemon never goes away unless it was told to stop
Alive == spc = "exited" => stopped
\* once the daemon has exited no status file naming it remains
NoStaleStatus == spc = "exited" => ~status
\* and while it serves, the status file is there
StatusWhileServing == (spc # "exited" /\ ~stopped) => status
\* no request is ever built from another connection's bytes
Intact == cur.intact
\* every client that sent a complete request and waited got the answer to its own request,
\* computed on the files as they were -- whatever earlier clients did
Expected(cls, v) == IF cls = "check" THEN (IF v = 0 THEN "check0" ELSE "check1")
                    ELSE IF cls \in ReplyingClasses THEN "error" ELSE cls
RepliesRight ==
   \A i \in 1..Len(obs) : LET o == obs[i] IN
        /\ o.reply \notin {"closed", "unread"} => o.reply = Expected(o.cls, o.ver)
        /\ (IsComplete(o.sent) /\ o.waits /\ o.cls \notin RaisingClasses) => o.reply = Expected(o.cls, o.ver)
        /\ (IsComplete(o.sent) /\ ~o.waits /\ o.cls \notin RaisingClasses) => o.reply = "unread"
\* a connection starts with a clean reassembly state
TypeOK == /\ spc \in {"accept", "read", "run", "reply", "exited"}
          /\ msgSize \in 0..(P + 1) \cup {NoSize}

\* ------------------------------------------------------------------ emission (Gen config)
Complete == (spc = "accept" /\ conn = MaxConns) \/ spc = "exited"
Emit == Complete => PrintT(<<"HIST", ToJson(h)>>)
=====================================================================
