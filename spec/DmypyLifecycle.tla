------------------------- MODULE DmypyLifecycle -------------------------
(* The dmypy client commands and the status file (mypy/dmypy/client.py do_start / do_restart / do_run /
   do_status / do_stop / do_kill / do_check, get_status / check_status; mypy/dmypy_server.py daemonize,
   Server.serve's status-file handling).  State: the daemon process (none / alive(generation) / dead) and
   what the status file says (absent, or the generation it names).  An external SIGKILL is the
   environment, and so is the passing of the idle time of a daemon started with --timeout (Idle).  Each command is one action whose outcome (exit status class) is recorded.

   Properties: at most one daemon is alive; a clean stop leaves no status file; `status` succeeds iff the
   daemon the file names is alive; `start` refuses to start a second daemon; `run` / `restart` always end
   with a live daemon named by the file.
*)
EXTENDS Naturals, Sequences, TLC, Json
CONSTANTS MaxCmds
VARIABLES alive,      \* generation number of the live daemon, 0 if none
          file,       \* generation the status file names, 0 if absent
          gen, ncmd, orphans, h
vars == <<alive, file, gen, ncmd, orphans, h>>
mcview == <<alive, file, ncmd, orphans>>
Init == alive = 0 /\ file = 0 /\ gen = 0 /\ ncmd = 0 /\ orphans = 0 /\ h = <<>>
Log(c, rc) == /\ h' = Append(h, [cmd |-> c, rc |-> rc, alive |-> alive' # 0, file |-> file' # 0]) /\ ncmd' = ncmd + 1
Named == file # 0 /\ file = alive                    \* get_status succeeds: file present and its process alive
Spawn == /\ gen' = gen + 1 /\ alive' = gen + 1 /\ file' = gen + 1
Start == /\ ncmd < MaxCmds
         /\ IF Named THEN /\ UNCHANGED <<alive, file, gen, orphans>> /\ Log("start", 2)     \* "Daemon is still alive"
                     ELSE /\ Spawn /\ orphans' = orphans + (IF alive # 0 THEN 1 ELSE 0) /\ Log("start", 0)
Status == /\ ncmd < MaxCmds /\ UNCHANGED <<alive, file, gen, orphans>>
          /\ Log("status", IF Named THEN 0 ELSE 2)
Stop == /\ ncmd < MaxCmds
        /\ IF Named THEN /\ alive' = 0 /\ file' = 0 /\ UNCHANGED <<gen, orphans>> /\ Log("stop", 0)
                    ELSE /\ UNCHANGED <<alive, file, gen, orphans>> /\ Log("stop", 2)
Kill == /\ ncmd < MaxCmds
        /\ IF Named THEN /\ alive' = 0 /\ UNCHANGED <<file, gen, orphans>> /\ Log("kill", 0)   \* the stale file stays
                    ELSE /\ UNCHANGED <<alive, file, gen, orphans>> /\ Log("kill", 2)
Restart == /\ ncmd < MaxCmds /\ Spawn /\ UNCHANGED orphans /\ Log("restart", 0)               \* stop (if running) + start
Run == /\ ncmd < MaxCmds
       /\ IF Named THEN UNCHANGED <<alive, file, gen, orphans>> ELSE /\ Spawn /\ UNCHANGED orphans
       /\ Log("run", 0)
Check == /\ ncmd < MaxCmds /\ UNCHANGED <<alive, file, gen, orphans>> /\ Log("check", IF Named THEN 0 ELSE 2)
ExtKill == /\ ncmd < MaxCmds /\ alive # 0 /\ alive' = 0 /\ UNCHANGED <<file, gen, orphans>> /\ Log("extkill", 0)
\* The daemon's own idle exit (`--timeout T`: IPCServer.__enter__ raises IPCException out of serve's loop, the
\* finally-block unlinks the status file because the last command was not "stop").  Only the daemon the file
\* names can be alive (NoOrphans), so the file it removes is its own.
Idle == /\ ncmd < MaxCmds /\ alive # 0 /\ alive' = 0 /\ file' = (IF file = alive THEN 0 ELSE file)
        /\ UNCHANGED <<gen, orphans>> /\ Log("idle", 0)
Next == Start \/ Status \/ Stop \/ Kill \/ Restart \/ Run \/ Check \/ ExtKill \/ Idle
Spec == Init /\ [][Next]_vars
\* ---- properties
NoOrphans == orphans = 0                                   \* never two live daemons for one status file
FileNamesLiveOrStale == file # 0 => (file = alive \/ alive = 0)
StopLeavesNoFile == [][(h' # h /\ h'[Len(h')].cmd = "stop" /\ h'[Len(h')].rc = 0) => file' = 0]_vars
\* every orderly exit of the daemon (a served stop, its own idle exit) leaves no status file behind
ExitLeavesNoFile == \A i \in 1..Len(h) : (h[i].cmd \in {"stop", "idle"} /\ h[i].rc = 0) => ~h[i].file
\* the file never names a daemon other than the live one while one is alive (so Idle removes its own file only)
IdleRemovesOwnFile == alive # 0 => file = alive
Complete == ncmd = MaxCmds
Emit == Complete => PrintT(<<"HIST", ToJson(h)>>)
==========================================================================
