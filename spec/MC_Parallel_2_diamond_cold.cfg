SPECIFICATION Spec
CONSTANTS
  N = 2
  Shape = "diamond"
  StaleKind = "cold"
  ReplyBeforeCommit = FALSE
  DoneAtSubmit = FALSE
VIEW mcview
INVARIANT ReadsCommitted
INVARIANT NoPrematureSubmit
INVARIANT EachStaleOnce
INVARIANT ErrorsOnce
INVARIANT AtEnd
PROPERTY SubmittedDepsDone
