SPECIFICATION Spec
CONSTANTS
  Toks <- ToksL2q
  BinOps <- AllBin
  UnOps <- AllUn
  MaxDepth = 2
  FloorDiv = FALSE
INVARIANT DivModLaw
INVARIANT BitLaw
INVARIANT ShiftLaw
INVARIANT RaisePropagates
