------------------------------ MODULE Reach ------------------------------
(* The value Python gives, at run time on the configured target, to the conditions that mypy
   evaluates statically (mypy/reachability.py infer_condition_value, consider_sys_version_info,
   consider_sys_platform; used by semanal_pass1.py to mark blocks unreachable).

   Run time: sys.version_info is the FIVE-tuple (3, minor, micro, 'final', 0); sys.platform is a
   string.  Python compares tuples lexicographically: the first position where the items differ
   decides (for == / != a difference decides without ordering the items; ordering 'final' against
   an int raises TypeError); when one is a prefix of the other the lengths decide.

   Conditions are generated stepwise (one action per syntactic choice):
     PickLhs     sys.version_info[i] | sys.version_info[lo:hi(:1)] | sys.version_info
     PickOp      one of the six comparison operators, operands possibly reversed
     PickLit     the literal int / tuple of ints compared with
     PickPlat    sys.platform == / != 'lit', sys.platform.startswith('lit')
     PickUnknown a name mypy knows nothing about (`unk`)
     Negate      not <condition>
     Combine     <core atom> and/or <core atom>
   Eval(c, t) is the run-time truth value on target t: "T", "F", "E" (TypeError) or "U" (depends
   on `unk`).  The value is emitted for the current condition on EVERY target, so one TLC run
   covers conditions x targets.
*)
EXTENDS Naturals, Sequences, FiniteSets, TLC, Json

CONSTANTS MaxMinor,      \* targets 3.0 .. 3.MaxMinor; literal minors 0 .. MaxMinor+1
          FiveTuple      \* TRUE: sys.version_info has five components (FALSE = only (major, minor), the view
                         \* reachability.py compares with: the specification-level mutant)

None == 99               \* an omitted slice bound
RL == 1000               \* stands for the string 'final' (sys.version_info[3])
Ops == {"==", "!=", "<", "<=", ">", ">="}
Chars(s) == s            \* platform names are sequences of one-character strings
Linux == <<"l", "i", "n", "u", "x">>
Win32 == <<"w", "i", "n", "3", "2">>
Darwin == <<"d", "a", "r", "w", "i", "n">>
Plats == {Linux, Win32, Darwin}
PlatLits == Plats \cup {<<"w", "i", "n">>, <<"l", "i", "n">>, <<>>, <<"l", "i", "n", "u", "x", "2">>, <<"c", "y", "g", "w", "i", "n">>}

\* ------------------------------------------------------------------ atoms (uniform records)
Nil == [t |-> "nil", f |-> "", i |-> 0, lo |-> None, hi |-> None, st |-> FALSE, op |-> "", rev |-> FALSE, lit |-> <<>>]
IdxLhs(i) == [Nil EXCEPT !.t = "v", !.f = "idx", !.i = i]
SliceLhs(lo, hi, st) == [Nil EXCEPT !.t = "v", !.f = "slice", !.lo = lo, !.hi = hi, !.st = st]
WholeLhs == [Nil EXCEPT !.t = "v", !.f = "whole"]
Lhss == {IdxLhs(i) : i \in 0..2}
        \cup {SliceLhs(lo, hi, st) : lo \in {None, 0, 1}, hi \in {None, 1, 2, 3}, st \in BOOLEAN}
        \cup {WholeLhs}
\* does the compared part start with the major (0) or the minor (1) component
StartsAt(a) == IF a.f = "slice" /\ a.lo = 1 THEN 1 ELSE 0
Minors == 0..(MaxMinor + 1)
Micros == 0..2
LitsFor(a) ==
  IF a.f = "idx" THEN (IF a.i = 0 THEN {<<2>>, <<3>>, <<4>>} ELSE IF a.i = 1 THEN {<<m>> : m \in Minors} ELSE {<<u>> : u \in Micros})
  ELSE IF StartsAt(a) = 0
       THEN {<<2>>, <<3>>, <<4>>} \cup {<<3, m>> : m \in Minors} \cup {<<2, 7>>, <<4, 0>>}
            \cup {<<3, m, u>> : m \in 0..MaxMinor, u \in Micros}
       ELSE {<<m>> : m \in Minors} \cup {<<m, u>> : m \in 0..MaxMinor, u \in Micros}
            \cup {<<m, u, 0>> : m \in {MaxMinor - 4, MaxMinor - 3}, u \in {0, 1}}
PlatAtom(form, lit, rev) == [Nil EXCEPT !.t = "p", !.f = form, !.lit = lit, !.rev = rev]
Unknown == [Nil EXCEPT !.t = "u"]

\* the small set of complete atoms that and/or combine
CoreMinors == {MaxMinor - 4, MaxMinor - 3, MaxMinor - 2}
CoreAtoms ==
  {[l EXCEPT !.op = op, !.lit = lit] : l \in {WholeLhs, SliceLhs(None, 2, FALSE)}, op \in Ops, lit \in {<<3, m>> : m \in CoreMinors}}
  \cup {[IdxLhs(1) EXCEPT !.op = op, !.lit = <<m>>] : op \in Ops, m \in CoreMinors}
  \cup {PlatAtom(f, lit, FALSE) : f \in {"eq", "ne", "sw"}, lit \in {Linux, Win32, <<"w", "i", "n">>}}
  \cup {Unknown}

VARIABLES c, stage
vars == <<c, stage>>
\* c = [k |-> "atom" | "and" | "or", a, b, neg]
Cond(k, a, b, neg) == [k |-> k, a |-> a, b |-> b, neg |-> neg]

Init == c = Cond("atom", Nil, Nil, FALSE) /\ stage = "start"
PickLhs == /\ stage = "start" /\ \E l \in Lhss : c' = [c EXCEPT !.a = l]
           /\ stage' = "lhs"
PickOp == /\ stage = "lhs" /\ \E op \in Ops, rev \in BOOLEAN : c' = [c EXCEPT !.a.op = op, !.a.rev = rev]
          /\ stage' = "op"
PickLit == /\ stage = "op" /\ \E lit \in LitsFor(c.a) : c' = [c EXCEPT !.a.lit = lit]
           /\ stage' = "atom"
PickPlat == /\ stage = "start"
            /\ \E f \in {"eq", "ne", "sw"}, lit \in PlatLits, rev \in BOOLEAN :
                  (rev => f # "sw") /\ c' = [c EXCEPT !.a = PlatAtom(f, lit, rev)]
            /\ stage' = "atom"
PickUnknown == /\ stage = "start" /\ c' = [c EXCEPT !.a = Unknown] /\ stage' = "atom"
Combine == /\ stage = "atom" /\ c.a \in CoreAtoms
           /\ \E k \in {"and", "or"}, y \in CoreAtoms : c' = [c EXCEPT !.k = k, !.b = y]
           /\ stage' = "bin"
Negate == /\ stage \in {"atom", "bin"} /\ c' = [c EXCEPT !.neg = TRUE] /\ stage' = "done"
Next == PickLhs \/ PickOp \/ PickLit \/ PickPlat \/ PickUnknown \/ Combine \/ Negate
Spec == Init /\ [][Next]_vars
Complete == stage \in {"atom", "bin", "done"}

\* ------------------------------------------------------------------ run-time values
Target(minor, micro, plat) == [minor |-> minor, micro |-> micro, plat |-> plat]
VersionInfo(t) == IF FiveTuple THEN <<3, t.minor, t.micro, RL, 0>> ELSE <<3, t.minor>>
Min2(x, y) == IF x < y THEN x ELSE y
PySlice(s, lo, hi) == LET l == IF lo = None THEN 0 ELSE lo
                          h == IF hi = None THEN Len(s) ELSE Min2(hi, Len(s))
                      IN IF h <= l THEN <<>> ELSE SubSeq(s, l + 1, h)
B(b) == IF b THEN "T" ELSE "F"
CmpInt(x, op, y) == CASE op = "==" -> x = y [] op = "!=" -> x # y [] op = "<" -> x < y
                      [] op = "<=" -> x <= y [] op = ">" -> x > y [] op = ">=" -> x >= y
FirstDiff(a, b) == LET n == Min2(Len(a), Len(b))
                       d == {i \in 1..n : a[i] # b[i]}
                   IN IF d = {} THEN 0 ELSE CHOOSE i \in d : \A j \in d : i <= j
CmpSeq(a, op, b) == LET i == FirstDiff(a, b) IN
                    IF i = 0 THEN B(CmpInt(Len(a), op, Len(b)))
                    ELSE IF op \in {"==", "!="} THEN B(op = "!=")
                    ELSE IF a[i] = RL \/ b[i] = RL THEN "E"
                    ELSE B(CmpInt(a[i], op, b[i]))
StartsWith(p, s) == Len(p) <= Len(s) /\ SubSeq(s, 1, Len(p)) = p
EvalAtom(a, t) ==
  CASE a.t = "u" -> "U"
    [] a.t = "p" -> (CASE a.f = "eq" -> B(t.plat = a.lit) [] a.f = "ne" -> B(t.plat # a.lit) [] a.f = "sw" -> B(StartsWith(a.lit, t.plat)))
    [] a.t = "v" ->
         IF a.f = "idx"
         THEN LET x == VersionInfo(t)[a.i + 1] IN IF a.rev THEN B(CmpInt(a.lit[1], a.op, x)) ELSE B(CmpInt(x, a.op, a.lit[1]))
         ELSE LET x == IF a.f = "whole" THEN VersionInfo(t) ELSE PySlice(VersionInfo(t), a.lo, a.hi)
              IN IF a.rev THEN CmpSeq(a.lit, a.op, x) ELSE CmpSeq(x, a.op, a.lit)
\* `unk` is one variable: U = "true exactly when unk is"
And(x, y) == CASE x = "F" -> "F" [] x = "T" -> y [] x = "E" -> "E"
               [] x = "U" -> (IF y = "F" THEN "F" ELSE "U")
Or(x, y) == CASE x = "T" -> "T" [] x = "F" -> y [] x = "E" -> "E"
              [] x = "U" -> (IF y = "T" THEN "T" ELSE "U")
Not(x) == CASE x = "T" -> "F" [] x = "F" -> "T" [] x = "E" -> "E" [] x = "U" -> "U"
EvalPos(cc, t) == CASE cc.k = "atom" -> EvalAtom(cc.a, t)
                    [] cc.k = "and" -> And(EvalAtom(cc.a, t), EvalAtom(cc.b, t))
                    [] cc.k = "or" -> Or(EvalAtom(cc.a, t), EvalAtom(cc.b, t))
Eval(cc, t) == IF cc.neg THEN Not(EvalPos(cc, t)) ELSE EvalPos(cc, t)

\* targets a condition is evaluated on: versions x micro (linux) for pure version conditions,
\* the platforms for pure platform conditions, a small grid for mixed ones
UsesV(cc) == cc.a.t = "v" \/ cc.b.t = "v"
UsesP(cc) == cc.a.t = "p" \/ cc.b.t = "p"
VTargets == [i \in 1..(2 * (MaxMinor + 1)) |-> Target((i - 1) \div 2, (i - 1) % 2, Linux)]
PTargets == <<Target(MaxMinor - 3, 0, Linux), Target(MaxMinor - 3, 0, Win32), Target(MaxMinor - 3, 0, Darwin)>>
MTargets == LET ms == <<MaxMinor - 4, MaxMinor - 3, MaxMinor - 2>>
                ps == <<Linux, Win32, Darwin>>
            IN [i \in 1..18 |-> Target(ms[((i - 1) \div 6) + 1], ((i - 1) \div 3) % 2, ps[((i - 1) % 3) + 1])]
TargetsOf(cc) == IF cc.k # "atom" THEN MTargets ELSE IF UsesP(cc) THEN PTargets ELSE VTargets

\* ------------------------------------------------------------------ properties of the rule
Vals(cc) == {Eval(cc, TargetsOf(cc)[i]) : i \in DOMAIN TargetsOf(cc)}
\* negation flips, De Morgan holds in the four-valued reading where no TypeError is involved
NegFlips == Complete => \A i \in DOMAIN TargetsOf(c) :
               LET t == TargetsOf(c)[i] IN Eval([c EXCEPT !.neg = ~c.neg], t) = Not(Eval(c, t))
\* reversing the operands with the mirrored operator gives the same value (the law mypy's reverse_op relies on)
Mirror(op) == CASE op = "<" -> ">" [] op = ">" -> "<" [] op = "<=" -> ">=" [] op = ">=" -> "<=" [] OTHER -> op
ReverseLaw == (stage = "atom" /\ c.a.t = "v") =>
                 \A i \in DOMAIN VTargets : EvalAtom(c.a, VTargets[i]) = EvalAtom([c.a EXCEPT !.rev = ~c.a.rev, !.op = Mirror(c.a.op)], VTargets[i])
\* the micro version never matters for what a two-component prefix decides, and only for that
PrefixIgnoresMicro == (stage = "atom" /\ c.a.t = "v" /\ c.a.f = "slice" /\ c.a.hi \in {1, 2}) =>
                         \A m \in 0..MaxMinor : EvalAtom(c.a, Target(m, 0, Linux)) = EvalAtom(c.a, Target(m, 1, Linux))
\* the whole five-tuple is never equal to a tuple of fewer components
WholeNeverEqualsShort == (stage = "atom" /\ c.a.t = "v" /\ c.a.f = "whole" /\ c.a.op = "==") =>
                            \A i \in DOMAIN VTargets : EvalAtom(c.a, VTargets[i]) = "F"

\* ------------------------------------------------------------------ emission (Gen configs)
Emit == Complete => PrintT(<<"COND", ToJson([c |-> c, v |-> [i \in DOMAIN TargetsOf(c) |-> Eval(c, TargetsOf(c)[i])]])>>)
EmitTargets == stage = "start" => PrintT(<<"TARGETS", ToJson([v |-> VTargets, p |-> PTargets, m |-> MTargets])>>)
==========================================================================
