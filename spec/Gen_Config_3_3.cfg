SPECIFICATION GenSpec
CONSTANTS
  Patterns <- PatsA
  ModSeq <- Mods39
  ValSeq <- Vals2
  Default = "d"
  MaxSections = 3
  FirstPats <- First3
  Letters <- L3
  SortWildcards = TRUE
  WildcardsFirst = TRUE
  LastGlobWins = TRUE
  LeadingStarZero = TRUE
  Umbrella = FALSE
  UVal = "p"
  UmbrellaAfterConfig = TRUE
INVARIANT Emit
