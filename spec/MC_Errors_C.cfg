SPECIFICATION Spec
CONSTANTS
  Codes <- McCodes
  NameOf <- McNameOf
  SubOf <- McSubOf
  DefaultOn <- McDefaultOn
  Renamed <- McRenamed
  HideLink <- McHideLink
  Slots <- SlotsC
  IgnChoices <- IgnC
  SkipChoices <- SkipC
  CodeCfgs <- CodesC
  FlagCfgs <- FlagsC
  Alphabet <- AlphaC
  MaxReports = 2
  DisabledLeavesUnused = TRUE
  SubCodesMatch = TRUE
  BlockersBypass = TRUE
  AssumeNoCrossCodeDups = TRUE
  NotesInheritOrigin = TRUE
INVARIANT Exactness
INVARIANT DisableExact
INVARIANT OutputExactness
INVARIANT AttachedExact
INVARIANT UnusedExact
INVARIANT ExitCode
