---- MODULE MC_CtrlFlow ----
EXTENDS CtrlFlow
====
