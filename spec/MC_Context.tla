---- MODULE MC_Context ----
EXTENDS Context
SeedsDef == {0, 1, 2, 3, 7, 11, 42, 12345}
WorldsDef == {"rich", "chain", "errors", "cycle", "typo", "lists"}
PriorOptsDef == {"same", "py310", "win311loose"}
MeasuredOptsDef == {"default", "oldinf"}
SlowWorldsDef == {"lists"}
====
