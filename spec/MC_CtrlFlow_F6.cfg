SPECIFICATION Spec
CONSTANTS
  MaxTok = 6
  MaxDepth = 3
  MaxHandlers = 2
  MaxSimple = 2
  Excs = {"V"}
  Pats = {"V", "X"}
  Guards = {0, 1}
  UseCraise = FALSE
  UseReraise = TRUE
  UseLoopElse = TRUE
  UseDef = FALSE
  LoopKinds = {"for"}
  LoopN = 2
  FinJumps = "any"
  JumpThroughFinally = TRUE
  Stutter = TRUE
  FinallyOverrides = TRUE
INVARIANT HandledMirrorsStack
INVARIANT FinallyAlwaysRuns
INVARIANT JumpTargetsExist
INVARIANT StructuredFlow
INVARIANT ResultShape
INVARIANT Terminates
INVARIANT Completable
