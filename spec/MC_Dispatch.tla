---- MODULE MC_Dispatch ----
EXTENDS Dispatch
====
