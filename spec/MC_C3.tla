---- MODULE MC_C3 ----
EXTENDS C3
====
