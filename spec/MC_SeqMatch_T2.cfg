SPECIFICATION Spec
CONSTANT Types <- AllTypes
CONSTANT MaxUnion = 2
CONSTANT UnionTypes <- UTypes
CONSTANT ItemKinds <- FewItems
CONSTANT MaxItems = 2
CONSTANT MaxCases = 2
CONSTANT MaxLen = 4
CONSTANT DoEmit = TRUE
CONSTANT ExcludeHole = TRUE
CONSTANT Mutant = "none"
INVARIANT ReachSound
INVARIANT CaptureSound
INVARIANT FixedExact
INVARIANT Emit
