SPECIFICATION Spec
CONSTANT Types <- SeqTypes
CONSTANT MaxUnion = 1
CONSTANT UnionTypes <- NoTypes
CONSTANT ItemKinds <- StarItems
CONSTANT MaxItems = 3
CONSTANT MaxCases = 1
CONSTANT MaxLen = 4
CONSTANT DoEmit = FALSE
CONSTANT ExcludeHole = TRUE
CONSTANT Mutant = "homirref"
INVARIANT ReachSound
INVARIANT CaptureSound
INVARIANT FixedExact
INVARIANT Emit
