---- MODULE MC_SubtypeCache ----
(* Configurations of SubtypeCache.tla.  Run in spec/ they use the hand-written instance
   SubtypeCacheObs.tla; the driver runs the same configurations in a scratch directory holding
   a generated SubtypeCacheObs.tla (tables extracted from the implementation). *)
EXTENDS SubtypeCache
====
