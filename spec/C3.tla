------------------------------- MODULE C3 -------------------------------
(* The C3 linearisation CPython computes for a new class (Objects/typeobject.c mro_implementation /
   pmerge) and mypy mirrors in mypy/mro.py (linearize_hierarchy, merge) when semanal.py
   calculate_class_mro runs.

   A hierarchy is a sequence `bases`: class i (1..Len) has the ordered base list bases[i] over
   earlier classes, without repetition (`class C(A, A)` is a different error).  `object` is
   implicit and left out on both sides.
     AddClass   appends one class with one ordered base list; enabled only while every class so
                far has a linearisation (at run time a class whose creation failed does not exist
                and cannot be a base)
   Mro(b, c) is the linearisation of class c, or Fail when there is none (CPython raises TypeError
   "Cannot create a consistent method resolution order", mypy reports "Cannot determine consistent
   method resolution order (MRO)").
*)
EXTENDS Naturals, Sequences, FiniteSets, TLC, Json
CONSTANTS N,             \* max number of classes
          UseBaseList    \* TRUE: the list of direct bases takes part in the merge (FALSE: specification-level mutant)
VARIABLES bases
vars == <<bases>>

Fail == <<0>>
OrderedSubsets(S) == UNION { {s \in [1..k -> S] : \A i, j \in 1..k : i # j => s[i] # s[j]} : k \in 0..Cardinality(S) }
InTail(x, s) == \E i \in 2..Len(s) : s[i] = x

\* pmerge: repeatedly take the head of the first list whose head is in no other list's tail
RECURSIVE Merge(_)
Merge(seqs) ==
  LET ne == SelectSeq(seqs, LAMBDA s : Len(s) > 0) IN
  IF Len(ne) = 0 THEN <<>>
  ELSE LET cands == { i \in 1..Len(ne) : \A j \in 1..Len(ne) : ~InTail(ne[i][1], ne[j]) } IN
       IF cands = {} THEN Fail
       ELSE LET i == CHOOSE i \in cands : \A k \in cands : i <= k
                h == ne[i][1]
                rest == [j \in 1..Len(ne) |-> IF ne[j][1] = h THEN Tail(ne[j]) ELSE ne[j]]
                m == Merge(rest)
            IN IF m = Fail THEN Fail ELSE <<h>> \o m

\* L[c] = c + merge(L[b1], ..., L[bn], <<b1, ..., bn>>)
RECURSIVE Mro(_, _)
Mro(b, c) ==
  LET bs == b[c]
      lins == [i \in 1..Len(bs) |-> Mro(b, bs[i])]
  IN IF \E i \in 1..Len(bs) : lins[i] = Fail THEN Fail
     ELSE LET m == Merge(IF UseBaseList THEN lins \o <<bs>> ELSE lins) IN IF m = Fail THEN Fail ELSE <<c>> \o m

Last == Len(bases)
LastMro == Mro(bases, Last)

Init == bases = <<>>
AddClass == /\ Last < N
            /\ (Last > 0 => LastMro # Fail)
            /\ \E b \in OrderedSubsets(1..Last) : bases' = Append(bases, b)
Next == AddClass
Spec == Init /\ [][Next]_vars

\* ------------------------------------------------------------------ properties of the rule
RECURSIVE Ancestors(_, _)
Ancestors(b, c) == {c} \cup UNION {Ancestors(b, b[c][i]) : i \in 1..Len(b[c])}
Pos(m, x) == CHOOSE i \in 1..Len(m) : m[i] = x
IsSubseq(s, m) == \A i, j \in 1..Len(s) : i < j => Pos(m, s[i]) < Pos(m, s[j])
Elems(m) == {m[i] : i \in 1..Len(m)}
\* a linearisation starts with the class, lists each ancestor exactly once,
WellFormed == (Last > 0 /\ LastMro # Fail) =>
                LET m == LastMro IN /\ m[1] = Last
                                    /\ \A i, j \in 1..Len(m) : i # j => m[i] # m[j]
                                    /\ Elems(m) = Ancestors(bases, Last)
\* keeps the order of the base list (local precedence),
LocalPrecedence == (Last > 0 /\ LastMro # Fail) => IsSubseq(bases[Last], LastMro)
\* and keeps the order of every base's own linearisation (monotonicity)
Monotone == (Last > 0 /\ LastMro # Fail) =>
               \A i \in 1..Len(bases[Last]) : IsSubseq(Mro(bases, bases[Last][i]), LastMro)
\* the first base follows the class immediately
FirstBaseNext == (Last > 0 /\ LastMro # Fail /\ Len(bases[Last]) > 0) => LastMro[2] = bases[Last][1]
\* single inheritance never fails
ChainsLinearise == (Last > 0 /\ \A c \in 1..Last : Len(bases[c]) <= 1) => LastMro # Fail

\* ------------------------------------------------------------------ emission (Gen configs)
Emit == Last > 0 => PrintT(<<"H", ToJson([b |-> bases, m |-> LastMro])>>)
=========================================================================
