SPECIFICATION Spec
CONSTANTS
 N = 4
 FirstLevelOnly = FALSE
 Reexports = TRUE
INVARIANT FreshIsSound
INVARIANT HashCoversReach
