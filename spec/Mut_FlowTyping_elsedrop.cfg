SPECIFICATION Spec
CONSTANT Classes <- S1_Classes
CONSTANT Vars <- S1_Vars
CONSTANT ParamTypes <- S1_Param
CONSTANT LocalTypes <- None
CONSTANT RetTypes <- S1_Ret
CONSTANT HelperTypes <- S1_Helper
CONSTANT CondKinds <- AllConds
CONSTANT LoopCondKinds <- Opq
CONSTANT StmtKinds <- AllKinds
CONSTANT MaxStmts = 2
CONSTANT MaxDepth = 2
CONSTANT DoRun = TRUE
CONSTANT DoEmit = FALSE
CONSTANT Mutant = "elsedrop"
CONSTANT FlagAwareJoin = TRUE
CONSTANT AsgToks <- AllAsg
CONSTANT IfVars <- S1_Vars
CONSTANT LoopVars <- S1_Vars
CONSTANT HeaderExprs <- AllHeaderExprs
INVARIANT MemberOK
INVARIANT RevealOK
INVARIANT ReachOK
INVARIANT NoWrong
