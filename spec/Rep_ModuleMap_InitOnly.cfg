SPECIFICATION Spec
CONSTANTS
  Universe <- UnivA
  MaxFiles = 4
  Names <- AllNames
  Configs <- AllConfigs
  ShadowRule = "initonly"
INVARIANT TypeOK
INVARIANT RoundTrip
INVARIANT RoundTripFind
INVARIANT FindInvertsCrawl
INVARIANT OrderIndependence
INVARIANT DirVersusFiles
INVARIANT DirVersusPackageModuloShadow
