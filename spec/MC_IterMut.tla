---- MODULE MC_IterMut ----
EXTENDS IterMut
====
