SPECIFICATION Spec
CONSTANTS
  NP = 4
  NA = 4
  MaxStar = 2
  MaxTD = 2
  GenSigs = FALSE
  WithUnknown <- UnknownOn
INVARIANT EmitSigs
INVARIANT EmitCall
