---- MODULE MC_Errors ----
EXTENDS Errors
\* the slice of mypy.errorcodes the bounded model works with (the driver checks it against the real tables)
McCodes == {"assignment", "method-assign", "truthy-bool", "misc", "literal-required", "unused-ignore",
            "ignore-without-code", "syntax", "call-arg", "call-arg@misc"}
\* errorcodes.CALL_ARG_MISC is a second object named "call-arg" that is a sub-code of "misc"
McNameOf == [c \in McCodes |-> IF c = "call-arg@misc" THEN "call-arg" ELSE c]
McSubOf == [c \in McCodes |-> IF c = "method-assign" THEN "assignment" ELSE IF c = "call-arg@misc" THEN "misc" ELSE "none"]
McDefaultOn == McCodes \ {"truthy-bool", "unused-ignore", "ignore-without-code"}
McRenamed == [c \in McCodes |-> IF c = "literal-required" THEN "misc" ELSE "none"]
McHideLink == {"misc", "assignment"}

Bare == [on |-> TRUE, codes |-> <<>>]
Ign(ks) == [on |-> TRUE, codes |-> ks]
T(line, span, code, sev, blocker, once, msg) ==
  [f |-> 1, line |-> line, col |-> 1, span |-> span, code |-> code, sev |-> sev, blocker |-> blocker,
   once |-> once, msg |-> msg, child |-> FALSE, linked |-> TRUE]
Child(once, msg) == [T(0, <<>>, "none", "note", FALSE, once, msg) EXCEPT !.child = TRUE]
\* a note attached the older way: same context, same code, no parent_error
Legacy(once, msg) == [Child(once, msg) EXCEPT !.linked = FALSE]
Places2 == {<<1, <<1>>>>, <<2, <<2>>>>, <<1, <<1, 2>>>>, <<2, <<2, 1>>>>}

\* ---- A: ignore placement on two lines (Exactness, UnusedExact)
SlotsA == <<<<1, 1>>, <<1, 2>>>>
IgnA == {NoIgn, Bare, Ign(<<"assignment">>), Ign(<<"method-assign">>), Ign(<<"misc">>), Ign(<<"truthy-bool">>), Ign(<<"syntax">>),
         Ign(<<"assignment", "misc">>), Ign(<<"misc", "unused-ignore">>)}
AlphaA == {T(p[1], p[2], c, "error", FALSE, FALSE, 1) : p \in Places2, c \in {"assignment", "method-assign", "misc"}}
          \cup {T(1, <<1>>, "truthy-bool", "error", FALSE, FALSE, 1), T(1, <<1>>, "literal-required", "error", FALSE, FALSE, 5)}
          \cup {T(l, <<l>>, "misc", "note", FALSE, FALSE, 2) : l \in {1, 2}}
          \cup {T(l, <<l>>, "misc", "note", FALSE, TRUE, 3) : l \in {1, 2}}
          \cup {Child(FALSE, 4), Legacy(FALSE, 7)}
          \cup {T(1, <<1>>, "none", "error", TRUE, FALSE, 6), T(2, <<2>>, "syntax", "error", TRUE, FALSE, 6)}
\* the same slice with three reports (thorough tier): a smaller alphabet keeps the product in budget
AlphaA3 == {T(p[1], p[2], c, "error", FALSE, FALSE, 1) : p \in {<<1, <<1>>>>, <<1, <<1, 2>>>>, <<2, <<2, 1>>>>}, c \in {"assignment", "method-assign"}}
           \cup {T(2, <<2>>, "misc", "error", FALSE, FALSE, 1), T(1, <<1>>, "truthy-bool", "error", FALSE, FALSE, 1),
                 T(1, <<1>>, "misc", "note", FALSE, TRUE, 3), T(2, <<2>>, "misc", "note", FALSE, TRUE, 3),
                 Child(FALSE, 4), Legacy(FALSE, 7), T(2, <<2>>, "syntax", "error", TRUE, FALSE, 6)}
CodesNone == {[enabled |-> {}, disabled |-> {}]}
FlagsA == {[hasMap |-> TRUE, ignoreAll |-> FALSE, warnUnused |-> w, links |-> FALSE] : w \in BOOLEAN}
SkipNone == {{}}

\* ---- B: enable / disable subsets on one line (DisableExact)
SlotsB == <<<<1, 1>>>>
IgnB == {NoIgn, Bare, Ign(<<"assignment">>), Ign(<<"truthy-bool", "method-assign">>)}
AlphaB == {T(1, <<1>>, c, "error", FALSE, FALSE, 1) : c \in {"assignment", "method-assign", "truthy-bool", "misc"}}
          \cup {T(2, <<2, 1>>, "method-assign", "error", FALSE, FALSE, 1), T(2, <<2>>, "assignment", "error", FALSE, TRUE, 3),
                T(1, <<1>>, "assignment", "error", FALSE, TRUE, 3),
                T(1, <<1>>, "misc", "note", FALSE, FALSE, 2), Child(FALSE, 4),
                T(1, <<1>>, "syntax", "error", TRUE, FALSE, 6)}
Tri(c) == {[e |-> {}, d |-> {}], [e |-> {c}, d |-> {}], [e |-> {}, d |-> {c}]}
CodesB == {[enabled |-> a.e \cup b.e \cup c.e \cup d.e, disabled |-> a.d \cup b.d \cup c.d \cup d.d] :
             a \in Tri("assignment"), b \in Tri("method-assign"), c \in Tri("truthy-bool"), d \in Tri("unused-ignore")}
          \cup {[enabled |-> {"ignore-without-code"} \cup x, disabled |-> y] :
                  x \in {{}, {"unused-ignore"}}, y \in {{}, {"assignment"}, {"misc"}}}
FlagsB == {[hasMap |-> TRUE, ignoreAll |-> FALSE, warnUnused |-> w, links |-> k] : w \in BOOLEAN, k \in BOOLEAN}

\* ---- C: file-level switches, skipped lines, only-once and a second file
SlotsC == <<<<1, 1>>, <<2, 1>>>>
IgnC == {NoIgn, Bare, Ign(<<"assignment">>), Ign(<<"misc">>)}
AlphaC == {[T(1, <<1>>, c, "error", FALSE, FALSE, 1) EXCEPT !.f = f] : c \in {"assignment", "misc"}, f \in {1, 2}}
          \cup {[T(1, <<1>>, "assignment", "note", FALSE, TRUE, 3) EXCEPT !.f = f] : f \in {1, 2}}
          \cup {Child(FALSE, 4), T(1, <<1>>, "syntax", "error", TRUE, FALSE, 6),
                T(1, <<1>>, "truthy-bool", "error", FALSE, FALSE, 1),
                T(1, <<1>>, "call-arg", "error", FALSE, FALSE, 7), T(1, <<1>>, "call-arg@misc", "error", FALSE, FALSE, 8)}
CodesC == {[enabled |-> {}, disabled |-> {}], [enabled |-> {"ignore-without-code"}, disabled |-> {"assignment"}],
           [enabled |-> {"truthy-bool"}, disabled |-> {"truthy-bool"}], [enabled |-> {}, disabled |-> {"misc"}],
           [enabled |-> {"call-arg"}, disabled |-> {"misc"}]}
FlagsC == {[hasMap |-> TRUE, ignoreAll |-> FALSE, warnUnused |-> FALSE, links |-> FALSE],
           [hasMap |-> TRUE, ignoreAll |-> FALSE, warnUnused |-> TRUE, links |-> FALSE],
           [hasMap |-> TRUE, ignoreAll |-> FALSE, warnUnused |-> TRUE, links |-> TRUE],
           [hasMap |-> TRUE, ignoreAll |-> FALSE, warnUnused |-> FALSE, links |-> TRUE],
           [hasMap |-> TRUE, ignoreAll |-> TRUE, warnUnused |-> TRUE, links |-> FALSE],
           [hasMap |-> FALSE, ignoreAll |-> FALSE, warnUnused |-> FALSE, links |-> FALSE]}
SkipC == {{}, {<<1, 1>>}}

\* ---- G: emission for replay into the real Errors object (three lines, every kind of template)
SlotsG == <<<<1, 1>>, <<1, 2>>, <<1, 3>>>>
IgnG == {NoIgn, Bare, Ign(<<"assignment">>), Ign(<<"method-assign", "misc">>), Ign(<<"misc">>)}
Places3 == Places2 \cup {<<3, <<3>>>>, <<3, <<3, 1>>>>}
AlphaG == {T(p[1], p[2], c, "error", FALSE, FALSE, 1) : p \in Places3, c \in {"assignment", "method-assign"}}
          \cup {T(1, <<1>>, "truthy-bool", "error", FALSE, FALSE, 1), T(2, <<2>>, "literal-required", "error", FALSE, FALSE, 5),
                T(3, <<3>>, "misc", "error", FALSE, FALSE, 1)}
          \cup {T(l, <<l>>, "misc", "note", FALSE, o, 2) : l \in {1, 3}, o \in BOOLEAN}
          \cup {Child(FALSE, 4), T(2, <<2>>, "syntax", "error", TRUE, FALSE, 6)}
CodesG == {[enabled |-> {}, disabled |-> {}], [enabled |-> {"truthy-bool", "ignore-without-code"}, disabled |-> {"method-assign"}],
           [enabled |-> {"unused-ignore"}, disabled |-> {"assignment"}]}
FlagsG == {[hasMap |-> TRUE, ignoreAll |-> FALSE, warnUnused |-> w, links |-> k] : w \in BOOLEAN, k \in BOOLEAN}
          \cup {[hasMap |-> TRUE, ignoreAll |-> TRUE, warnUnused |-> TRUE, links |-> FALSE],
                [hasMap |-> FALSE, ignoreAll |-> FALSE, warnUnused |-> FALSE, links |-> FALSE]}
SkipG == {{}, {<<1, 2>>}}
====
