SPECIFICATION Spec
CONSTANTS
  Paths <- PathsDef
  Contents <- ContentsDef
  CoarseClock = TRUE
  MaxEnv = 2
  MaxOps = 3
INVARIANT Emit
