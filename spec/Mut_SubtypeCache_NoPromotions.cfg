SPECIFICATION Spec
CONSTANTS
  KeyOf <- KeyNoPromotions
  Ask = "quick"
  MaxQ = 2
  MaxR = 0
VIEW view
INVARIANT AnswerIsTruth
