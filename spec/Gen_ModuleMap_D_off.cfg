SPECIFICATION Spec
CONSTANTS
  Universe <- UnivD
  MaxFiles = 8
  Names <- AllNames
  Configs <- ConfigsNsOff
  ShadowRule = "asis"
INVARIANT TypeOK
INVARIANT RoundTrip
INVARIANT RoundTripFind
INVARIANT FindInvertsCrawl
INVARIANT OrderIndependence
INVARIANT DirVersusFilesModuloShadow
INVARIANT DirVersusPackageModuloShadow
INVARIANT Emit
