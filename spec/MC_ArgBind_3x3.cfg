SPECIFICATION Spec
CONSTANTS
  NP = 3
  NA = 3
  MaxStar = 2
  MaxTD = 2
  GenSigs = TRUE
INVARIANT SigsAgree
INVARIANT BindsIffWellDefined
INVARIANT DefaultsRelax
INVARIANT ArityMonotone
