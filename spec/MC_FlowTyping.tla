---- MODULE MC_FlowTyping ----
EXTENDS FlowTyping
\* declared types (simplified unions only: no item is a subtype of another item)
T_A == {"A"}
T_B == {"B"}
T_D == {"D"}
T_N == {"N"}
T_AN == {"A", "N"}
T_BN == {"B", "N"}
T_AD == {"A", "D"}
T_BD == {"B", "D"}
T_BE == {"B", "E"}
T_ADN == {"A", "D", "N"}
T_BDN == {"B", "D", "N"}
T_BCN == {"B", "C", "N"}
T_BEN == {"B", "E", "N"}
AllHeaderExprs == {ENew(K) : K \in Classes} \cup {ENone, EVar("x")}
AllKinds == {"asg", "if", "else", "while", "brk", "cnt", "ret", "call", "meth"}
AllKindsM == AllKinds \cup {"match"}
AllConds == {"isi", "isn", "nn", "tru", "opq"}
\* ---- slice S1: one variable, everything else
S1_Classes == {"A", "B", "D"}
S1_Vars == {"x"}
S1_Param == {T_AN, T_AD, T_BDN}
S1_Ret == {T_N}
S1_Helper == {T_A, T_BD}
Opq == {"opq"}
None == {}
\* ---- full universe (simulation; and the base of the other slices)
F_Classes == {"A", "B", "C", "D", "E"}
F_Vars == {"x", "y"}
F_Types == {T_A, T_B, T_D, T_N, T_AN, T_BN, T_AD, T_BD, T_BE, T_ADN, T_BDN, T_BCN, T_BEN}
F_Ret == {T_N, T_AN, T_B, T_BD}
F_Helper == {T_A, T_B, T_BD, T_AN, T_BCN}
\* ---- slice S2: two variables (aliasing, narrowing on assignment, annotated first assignment)
S2_Classes == {"A", "B"}
S2_Param == {T_AN}
S2_Local == {T_AN, T_BN}
S2_Helper == {T_A}
S2_Conds == {"isi", "isn", "opq"}
S2_Kinds == {"asg", "if", "else", "while", "brk", "meth"}
S2t_Local == {T_BN}
S2t_Header == {ENone, EVar("x")}
S2t_Kinds == {"asg", "if", "else", "while", "meth"}
\* ---- slice L1: loops with narrowing conditions, break / continue
L1_Param == {T_ADN}
L1_Conds == {"isi", "opq"}
L1_Kinds == {"asg", "if", "while", "brk", "cnt", "meth"}
\* ---- slice E1: truthiness with a class that can be false
E1_Classes == {"A", "D", "E"}
T_EN == {"E", "N"}
E1_Param == {T_AN, T_EN, T_AD}
E1_Conds == {"tru", "isi", "opq"}
E1_Kinds == {"asg", "if", "else", "meth", "ret"}
E1_Ret == {T_N, T_A}
\* ---- slice C1: sibling final classes under a common base
C1_Classes == {"A", "B", "C"}
C1_Param == {T_A, T_BCN, T_AN}
C1_Conds == {"isi", "isn", "nn"}
C1_Kinds == {"asg", "if", "else", "meth", "call"}
C1_Helper == {T_B, T_BCN}
\* ---- slice R1: return compatibility and missing return
R1_Ret == {T_N, T_AN, T_B}
R1_Kinds == {"asg", "if", "else", "ret", "while", "brk"}
\* ---- slice P1: match with class patterns
P1_Classes == {"A", "B", "D"}
P1_Param == {T_AD, T_BDN, T_AN}
P1_Kinds == {"asg", "match", "meth", "call"}
P1_Conds == {"isn"}
\* ---- slice T1: truthiness of a narrowed subclass joined after assignments (finding C01/1 lives here)
T1_Classes == {"E"}
T1_Param == {T_A}
T1_Local == {T_AN}
T1_Conds == {"tru"}
T1_Kinds == {"asg", "if", "else", "while"}
Asg(v, e) == Tok("asg", v, e, NoQ, {})
T1_Asg == {Asg("x", ENew("E")), Asg("y", ENew("E")), Asg("y", EVar("x")), Asg("x", EVar("y"))}
T0_Asg == {Asg("x", ENew("E")), Asg("y", EVar("x"))}
T1_Header == {ENone}
T1_IfVars == {"x"}
T1_LoopVars == {"y"}
\* ---- simulation universe: no class whose truthiness varies (E only in the exhaustive slices E1 / T1)
G_Classes == {"A", "B", "C", "D"}
G_Types == {T_A, T_B, T_D, T_N, T_AN, T_BN, T_AD, T_BD, T_ADN, T_BDN, T_BCN}
\* ---- wide declared types (simulation SimW: most assignments are accepted, narrowing does the work)
W_Types == {T_ADN}
W_Helper == {T_A, T_AN, T_BD, T_D}
\* ---- tiny slice for the jumpmiss mutant
M_Classes == {"A", "D"}
M_Param == {T_AD}
M_Kinds == {"asg", "if", "while", "brk", "meth"}
L0_Kinds == {"asg", "if", "while", "brk", "cnt", "meth"}
\* ---- slice N0: a variable narrowed only by a TEST in an enclosing branch, a `while cond():` loop inside the branch
\*      whose body uses it at the narrow type and then assigns it a value of (exactly) its declared, wider type
N0_Classes == {"A"}
N0_Param == {T_AN}
N0_Conds == {"nn"}
N0_Kinds == {"asg", "if", "while", "meth"}
N0t_Param == {T_AN, T_AD}
N0t_Conds == {"nn", "isi"}
N0t_Kinds == {"asg", "if", "while", "meth"}
N0t_Asg == {Asg("x", ENone), Asg("x", ENew("D")), Asg("x", ENew("A"))}
N0_Asg == {Asg("x", ENone), Asg("x", ENew("A"))}
\* ---- slice E0: the falsy final leaf E in unions with another class / None, used in the falsy branch
T_ED == {"E", "D"}
E0_Classes == {"E", "D"}
E0_Param == {T_ED, T_EN, T_A}
E0_Conds == {"tru", "isi"}
E0_Kinds == {"asg", "if", "else", "meth", "call"}
E0_Asg == {Asg("x", ENew("E")), Asg("x", ENew("D"))}
====
