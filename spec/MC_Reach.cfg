SPECIFICATION Spec
CONSTANTS
  MaxMinor = 15
  FiveTuple = TRUE
INVARIANT NegFlips
INVARIANT ReverseLaw
INVARIANT PrefixIgnoresMicro
INVARIANT WholeNeverEqualsShort
