SPECIFICATION Spec
CONSTANT MaxMinor = 15
INVARIANT NegFlips
INVARIANT ReverseLaw
INVARIANT PrefixIgnoresMicro
INVARIANT WholeNeverEqualsShort
