SPECIFICATION Spec
CONSTANTS
  Universe <- UnivA
  MaxFiles = 3
  Names <- AllNames
  Configs <- AllConfigs
  ShadowRule = "asis"
INVARIANT DirVersusFiles
