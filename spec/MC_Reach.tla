---- MODULE MC_Reach ----
EXTENDS Reach
====
