SPECIFICATION Spec
CONSTANT Lens <- LensC
VIEW view
INVARIANT PrefixOK
INVARIANT AllAtEnd
INVARIANT LatchCoherent
INVARIANT StreamInv
PROPERTY AppendOnly
