SPECIFICATION Spec
CONSTANTS
  Universe <- UnivC
  MaxFiles = 4
  Names <- AllNames
  Configs <- AllConfigs
  ShadowRule = "asis"
INVARIANT TypeOK
INVARIANT RoundTrip
INVARIANT RoundTripFind
INVARIANT FindInvertsCrawl
INVARIANT OrderIndependenceModuloShadow
INVARIANT DirVersusFilesModuloShadow
INVARIANT DirVersusPackageModuloShadow
INVARIANT Emit
