SPECIFICATION Spec
CONSTANTS
  CatchReceiveError = TRUE
  ResetOnAccept = TRUE
  ResetOnEof = FALSE
  CatchSendError = FALSE
  MaxConns = 3
  MaxEdits = 1
  Classes <- AllClasses
VIEW view
INVARIANT Alive
INVARIANT NoStaleStatus
INVARIANT StatusWhileServing
INVARIANT Intact
INVARIANT RepliesRight
INVARIANT TypeOK
