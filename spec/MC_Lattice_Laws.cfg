SPECIFICATION LawSpec
CONSTANTS
  Bases <- BasesDef
  UserClasses <- UserClassesDef
  Promotions <- PromotionsDef
  LitBase <- LitBaseDef
  OtherAtoms <- OtherAtomsDef
  UOps <- UOpsDef
  UArgs <- UArgsQ
  TypeArgs <- TypeArgsQ
  TupArgs <- TupArgsQ
  UnionArgs <- UnionArgsQ
  FnKinds <- FnKindsDef
  FnArgs <- FnArgsQ
  FnRets <- FnRetsQ
  VtItems <- VtItemsQ
  Extras <- ExtrasQ
  SimpAtoms <- SimpAtomsQ
INVARIANT CoreOut
INVARIANT Drift
INVARIANT SameDrift
INVARIANT Laws
