---- MODULE MC_DmypyServe ----
EXTENDS DmypyServe
AllClasses == {"status", "check", "stop", "garbage", "nondict", "nocmd", "cmdnotstr", "unknown"}
NoStopClasses == AllClasses \ {"stop"}
====
