SPECIFICATION GenSpec
CONSTANTS
  Patterns <- PatsA
  ModSeq <- Mods39
  ValSeq <- Vals2
  Default = "d"
  MaxSections = 1
  FirstPats <- PatsA
  Letters <- L3
  SortWildcards = TRUE
  WildcardsFirst = TRUE
  LastGlobWins = TRUE
  LeadingStarZero = TRUE
  Umbrella = TRUE
  UVal = "p"
  UmbrellaAfterConfig = TRUE
INVARIANT Emit
