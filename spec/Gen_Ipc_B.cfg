SPECIFICATION Spec
CONSTANT Lens <- LensB
INVARIANT PrefixOK
INVARIANT AllAtEnd
INVARIANT Emit
