SPECIFICATION Spec
CONSTANTS
  N = 5
  UseBaseList = TRUE
INVARIANT WellFormed
INVARIANT LocalPrecedence
INVARIANT Monotone
INVARIANT FirstBaseNext
INVARIANT ChainsLinearise
