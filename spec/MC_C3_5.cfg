SPECIFICATION Spec
CONSTANT N = 5
INVARIANT WellFormed
INVARIANT LocalPrecedence
INVARIANT Monotone
INVARIANT ChainsLinearise
