SPECIFICATION Spec
CONSTANTS
  Universe <- UnivD
  MaxFiles = 8
  Names <- AllNames
  Configs <- ConfigsEpb
  ShadowRule = "asis"
INVARIANT TypeOK
INVARIANT RoundTrip
INVARIANT RoundTripFind
INVARIANT FindInvertsCrawl
INVARIANT OrderIndependenceModuloShadow
INVARIANT DirVersusFilesModuloShadow
INVARIANT DirVersusPackageModuloShadow
INVARIANT Emit
