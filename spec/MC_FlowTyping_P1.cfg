SPECIFICATION Spec
CONSTANT Classes <- P1_Classes
CONSTANT Vars <- S1_Vars
CONSTANT ParamTypes <- P1_Param
CONSTANT LocalTypes <- None
CONSTANT RetTypes <- S1_Ret
CONSTANT HelperTypes <- C1_Helper
CONSTANT CondKinds <- P1_Conds
CONSTANT LoopCondKinds <- Opq
CONSTANT StmtKinds <- P1_Kinds
CONSTANT MaxStmts = 3
CONSTANT MaxDepth = 2
CONSTANT DoRun = TRUE
CONSTANT DoEmit = TRUE
CONSTANT Mutant = "none"
CONSTANT FlagAwareJoin = TRUE
CONSTANT AsgToks <- AllAsg
CONSTANT IfVars <- S1_Vars
CONSTANT LoopVars <- S1_Vars
CONSTANT HeaderExprs <- AllHeaderExprs
INVARIANT MemberOK
INVARIANT RevealOK
INVARIANT ReachOK
INVARIANT NoWrong
INVARIANT BinderShape
INVARIANT Balanced
INVARIANT Emit
