SPECIFICATION Spec
CONSTANTS
  KeyOf <- KeyNoVariance
  Ask = "quick"
  MaxQ = 2
  MaxR = 0
VIEW view
INVARIANT AnswerIsTruth
