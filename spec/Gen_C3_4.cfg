SPECIFICATION Spec
CONSTANT N = 4
INVARIANT Emit
