SPECIFICATION Spec
CONSTANTS
  Patterns <- PatsA
  ModSeq <- Mods39
  ValSeq <- Vals2
  Default = "d"
  MaxSections = 1
  FirstPats <- PatsA
  Letters <- L3
  SortWildcards = TRUE
  WildcardsFirst = TRUE
  LastGlobWins = TRUE
  LeadingStarZero = FALSE
  Umbrella = TRUE
  UVal = "p"
  UmbrellaAfterConfig = FALSE
INVARIANT ParentsFirst
INVARIANT PrecedenceAsDocumented
