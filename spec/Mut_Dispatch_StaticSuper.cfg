SPECIFICATION DSpec
CONSTANTS
  N = 4
  UseBaseList = TRUE
  UseProps = FALSE
INVARIANT SuperIsStatic
