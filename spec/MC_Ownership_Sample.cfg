SPECIFICATION Spec
CONSTANT FSel <- SampleGood
INVARIANT NoLeak
INVARIANT NoDoubleRelease
INVARIANT NoUndefRead
INVARIANT NoUseAfterRelease
INVARIANT Classified
