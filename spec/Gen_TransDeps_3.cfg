SPECIFICATION Spec
CONSTANTS
 N = 3
 FirstLevelOnly = FALSE
 Reexports = TRUE
INVARIANT Emit
