SPECIFICATION Spec
CONSTANTS
  MaxLen = 10
  MaxDepth = 2
  MaxTry = 2
  MaxUse = 2
  MaxBoom = 2
INVARIANT Emit
INVARIANT TypeOK
INVARIANT WellNested
PROPERTY HandlerSound
