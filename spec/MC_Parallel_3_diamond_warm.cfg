SPECIFICATION Spec
CONSTANTS
  N = 3
  Shape = "diamond"
  StaleKind = "warm"
  ReplyBeforeCommit = FALSE
  DoneAtSubmit = FALSE
VIEW mcview
INVARIANT ReadsCommitted
INVARIANT NoPrematureSubmit
INVARIANT EachStaleOnce
INVARIANT ErrorsOnce
INVARIANT AtEnd
PROPERTY SubmittedDepsDone
