SPECIFICATION Spec
CONSTANTS
  Patterns <- PatsA
  ModSeq <- Mods39
  ValSeq <- Vals2
  Default = "d"
  MaxSections = 3
  FirstPats <- PatsA
  Letters <- L3
  SortWildcards = TRUE
  WildcardsFirst = TRUE
  LastGlobWins = TRUE
  LeadingStarZero = FALSE
  Umbrella = FALSE
  UVal = "p"
  UmbrellaAfterConfig = TRUE
INVARIANT TypeOK
INVARIANT ClassesAgree
INVARIANT MatchAgree
INVARIANT ParentsFirst
INVARIANT CacheAsDocumented
INVARIANT PrecedenceAsDocumented
