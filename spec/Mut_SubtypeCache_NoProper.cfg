SPECIFICATION Spec
CONSTANTS
  KeyOf <- KeyNoProper
  Ask = "quick"
  MaxQ = 2
  MaxR = 0
VIEW view
INVARIANT AnswerIsTruth
