SPECIFICATION Spec
CONSTANTS
  NP = 4
  NA = 2
  MaxStar = 2
  MaxTD = 2
  GenSigs = TRUE
  WithUnknown <- UnknownOn
INVARIANT EmitSigs
INVARIANT EmitCall
