SPECIFICATION DSpec
CONSTANTS
  N = 3
  UseBaseList = TRUE
  UseProps = TRUE
INVARIANT ChainWellFormed
INVARIANT TraitsWellFormed
INVARIANT WellFormed
INVARIANT Monotone
