---------------------------- MODULE SubtypeCache ----------------------------
(* C08 -- "none of these answers depends on what the subtype caches happen to contain".

   mypy/typestate.py TypeState keeps, per right-hand TypeInfo, a positive and a negative memo of
   Instance-vs-Instance subtype queries, keyed by the *subtype kind* that
   mypy/subtypes.py SubtypeVisitor.build_subtype_kind builds from the flags of the query.
   SubtypeVisitor.visit_instance consults the memo before doing any work and records its
   result afterwards; reset_all_subtype_caches / reset_subtype_caches_for(info) empty it.

   A QUERY is an entry e in 1..NE: one (kind, left Instance, right Instance).  The tables in
   module SubtypeCacheObs are extracted from the implementation, each entry evaluated on EMPTY
   caches:
     EntKind[e]   the flags of the query, as the 9-tuple build_subtype_kind returns:
                  <<strict_optional, proper_subtype, ignore_type_params, ignore_pos_arg_names,
                    ignore_declared_variance, always_covariant, ignore_promotions,
                    erase_instances, keep_erased_types>>
     EntPair[e]   the (left, right) pair, a number
     Truth        the set of entries whose fresh answer is True
     RecPos[e], RecNeg[e]  the entries that the evaluation of e records in ITS OWN frame (what
                  its sub-queries record is theirs): normally {e} on one side; {} when nothing
                  is recorded (last_known_value on either side, variance not ready, the early
                  returns of is_subtype / visit_instance that never reach the memo); and for a
                  structural match is_protocol_implementation records the pair under the kind
                  (strict_optional, proper, ignore_pos_arg_names = not a __call__ protocol, all
                  other flags off) whatever the flags of the query were -- a different entry
     Child[e]     the entries (Instance-vs-Instance sub-queries, with their own kinds) that the
                  evaluation of e asks directly
     PairInfo[p]  the TypeInfo the pair is filed under (right.type)
     PairCacheable[p]  FALSE when either side carries a last_known_value: is_cached_* give up
     Groups       sequence of sets of entries; one behaviour asks the entries of one group

   State: pos, neg = the sets of recorded entries (the two dicts of TypeState, flattened).  A
   lookup compares KEYS: entry d serves a query e when KeyOf(EntKind[d]) = KeyOf(EntKind[e]) and
   the pairs are equal -- so a key that forgets a flag lets a recorded answer of another kind be
   served.  KeyOf is a constant operator: BuildSubtypeKind (identity, what the code does) in
   the checked configurations, a flag-forgetting variant in the Mut_ configurations.

   Query(e)   = SubtypeVisitor.visit_instance for right: Instance -- is_cached_subtype_check,
                is_cached_negative_subtype_check, else evaluate: the sub-queries Child[e] go
                through the same memo (Touched), every evaluated entry records per Rec.
   Reset      = TypeState.reset_all_subtype_caches
   ResetFor(i)= TypeState.reset_subtype_caches_for(info)

   Property: AnswerIsTruth -- every Query returns the fresh-cache answer whatever was asked (or
   reset) before.  CacheSound / Disjoint are the inductive facts behind it.  *)
EXTENDS Naturals, Sequences, FiniteSets, TLC, Json, SubtypeCacheObs

CONSTANTS
  KeyOf(_),     \* kind tuple -> cache key
  Ask,          \* "single" | "quick" | "all": the kinds a behaviour may ask at top level
  MaxQ,         \* queries per behaviour
  MaxR          \* resets per behaviour

VARIABLES g, pos, neg, ans, last, nq, nr, h
vars == <<g, pos, neg, ans, last, nq, nr, h>>
view == <<g, pos, neg, ans, last, nq, nr>>

E == 1..NE
Infos == {PairInfo[p] : p \in 1..Len(PairInfo)}

\* ---- mypy/subtypes.py SubtypeVisitor.build_subtype_kind: every flag is part of the key
BuildSubtypeKind(kd) == kd
\* flag-forgetting variants (specification-level mutants)
Forget(kd, i) == [j \in 1..9 |-> IF j = i THEN FALSE ELSE kd[j]]
KeyNoProper(kd) == Forget(kd, 2)
KeyNoPromotions(kd) == Forget(kd, 7)
KeyNoVariance(kd) == Forget(kd, 6)

\* ---- SubtypeContext.check_context: which flag combinations exist
ValidKind(kd) == IF kd[2] THEN ~kd[4] /\ ~kd[5] ELSE ~kd[8] /\ ~kd[9]
AllKinds == {kd \in [1..9 -> BOOLEAN] : ValidKind(kd)}
BaseKinds == {kd \in AllKinds : \A i \in (1..9) \ {1, 2} : ~kd[i]} \* strict_optional and proper free
Dev(kd, b) == Cardinality({i \in 1..9 : kd[i] # b[i]})
\* strict optional, at most one flag away from the plain proper / non-proper query
SingleKinds == {kd \in AllKinds : \E b \in BaseKinds : b[1] /\ b[2] = kd[2] /\ Dev(kd, b) <= 1}
QuickKinds == {kd \in AllKinds : kd[1] /\ ~kd[3]}
AskKinds == CASE Ask = "single" -> SingleKinds [] Ask = "quick" -> QuickKinds [] Ask = "all" -> AllKinds
\* (plain definitions: TLC evaluates them once; a CONSTANT <- override is re-evaluated at every use)
Askable == [gg \in 1..Len(Groups) |-> {e \in Groups[gg] : EntKind[e] \in AskKinds}]

\* ---- the memo
Serves(d, e) == KeyOf(EntKind[d]) = KeyOf(EntKind[e]) /\ EntPair[d] = EntPair[e]
HitPos(c, e) == PairCacheable[EntPair[e]] /\ \E d \in c[1] : Serves(d, e)   \* is_cached_subtype_check
HitNeg(c, e) == PairCacheable[EntPair[e]] /\ \E d \in c[2] : Serves(d, e)   \* is_cached_negative_subtype_check
Hit(c, e) == HitPos(c, e) \/ HitNeg(c, e)

\* entries evaluated (not served from the memo) when e is asked in cache state c.  Sub-queries
\* see the same memo; what a sibling records can only turn a later evaluation of the SAME entry
\* into a hit, which the set union absorbs.
RECURSIVE Touched(_, _)
Touched(c, e) == IF Hit(c, e) THEN {} ELSE {e} \cup UNION {Touched(c, d) : d \in Child[e]}

Answer(c, e) == IF HitPos(c, e) THEN TRUE ELSE IF HitNeg(c, e) THEN FALSE ELSE e \in Truth

Init == /\ g \in 1..Len(Groups)
        /\ pos = {} /\ neg = {} /\ ans = FALSE /\ last = 0 /\ nq = 0 /\ nr = 0 /\ h = <<>>

Query(e) ==
  /\ nq < MaxQ
  /\ LET c == <<pos, neg>>
         tch == Touched(c, e)
         np == pos \cup UNION {RecPos[d] : d \in tch}        \* record_subtype_cache_entry
         nn == neg \cup UNION {RecNeg[d] : d \in tch}        \* record_negative_subtype_cache_entry
     IN /\ ans' = Answer(c, e)
        /\ pos' = np /\ neg' = nn
        /\ h' = Append(h, [a |-> "q", e |-> e, info |-> "", ans |-> Answer(c, e), pos |-> np, neg |-> nn])
  /\ last' = e /\ nq' = nq + 1 /\ UNCHANGED <<g, nr>>

Reset ==
  /\ nr < MaxR /\ nq > 0 /\ nq < MaxQ
  /\ pos' = {} /\ neg' = {}
  /\ h' = Append(h, [a |-> "reset", e |-> 0, info |-> "", ans |-> FALSE, pos |-> {}, neg |-> {}])
  /\ last' = 0 /\ nr' = nr + 1 /\ UNCHANGED <<g, ans, nq>>

ResetFor(i) ==
  /\ nr < MaxR /\ nq > 0 /\ nq < MaxQ
  /\ \E d \in pos \cup neg : PairInfo[EntPair[d]] = i          \* (a reset that removes nothing is Reset-like: skip)
  /\ pos' = {d \in pos : PairInfo[EntPair[d]] # i}
  /\ neg' = {d \in neg : PairInfo[EntPair[d]] # i}
  /\ h' = Append(h, [a |-> "resetfor", e |-> 0, info |-> i, ans |-> FALSE,
                     pos |-> {d \in pos : PairInfo[EntPair[d]] # i},
                     neg |-> {d \in neg : PairInfo[EntPair[d]] # i}])
  /\ last' = 0 /\ nr' = nr + 1 /\ UNCHANGED <<g, ans, nq>>

Next == (\E e \in Askable[g] : Query(e)) \/ Reset \/ (\E i \in Infos : ResetFor(i))
Spec == Init /\ [][Next]_vars

\* ---- the property
AnswerIsTruth == last # 0 => (ans = (last \in Truth))
\* ---- why it holds
CacheSound == (\A d \in pos : d \in Truth) /\ (\A d \in neg : d \notin Truth)
Disjoint == pos \cap neg = {}
OnlyRecordable == \A d \in pos \cup neg : PairCacheable[EntPair[d]]

\* ---- emission of complete behaviours (Gen configurations)
Complete == nq = MaxQ
Emit == Complete => PrintT(<<"HIST", ToJson([g |-> g, h |-> h])>>)

\* shape of the tables
TablesOK == /\ Len(EntKind) = NE /\ Len(EntPair) = NE /\ Len(RecPos) = NE /\ Len(RecNeg) = NE /\ Len(Child) = NE
            /\ Truth \subseteq E
            /\ \A e \in E : /\ EntKind[e] \in [1..9 -> BOOLEAN] /\ Child[e] \subseteq E /\ EntPair[e] \in 1..Len(PairInfo)
                           /\ RecPos[e] \subseteq E /\ RecNeg[e] \subseteq E
            /\ Len(PairCacheable) = Len(PairInfo)
            /\ \A i \in 1..Len(Groups) : Groups[i] \subseteq E
ASSUME TablesOK
=============================================================================
