---- MODULE MC_ModuleMap ----
EXTENDS ModuleMap

R == <<"r">>
RP == <<"r", "p">>
RQ == <<"r", "q">>
RPQ == <<"r", "p", "q">>
RPP == <<"r", "p", "p">>
RQP == <<"r", "q", "p">>
RQQ == <<"r", "q", "q">>

AllNames == <<"__init__", "k", "m", "n", "p", "q", "r">>

\* configurations: options x working directory (tree root / outside / inside) x mypy_path x target
Opts == {<<FALSE, FALSE>>, <<TRUE, FALSE>>, <<TRUE, TRUE>>}
AllConfigs ==
  {[ns |-> o[1], epb |-> o[2], cwd |-> c, mp |-> m, tgt |-> t] :
      o \in Opts, c \in {R, <<>>, RP}, m \in {<<>>, <<RQ>>}, t \in {R, RP}}
\* slices of AllConfigs so that several TLC processes can share the work
ConfigsNsOff == {c \in AllConfigs : ~c.ns}
ConfigsNsOn == {c \in AllConfigs : c.ns /\ ~c.epb}
ConfigsEpb == {c \in AllConfigs : c.epb}

\* A: regular packages, stubs beside sources, module file beside a directory of the same name
UnivA == << F(R, "m", "py"), F(R, "m", "pyi"), F(R, "p", "py"),
            F(RP, "__init__", "py"), F(RP, "__init__", "pyi"), F(RP, "m", "py"), F(RP, "m", "pyi"),
            F(RP, "q", "py"), F(RPQ, "__init__", "py"), F(RPQ, "m", "py"),
            F(RQ, "m", "py"), F(RQ, "p", "py") >>

\* B: nested namespace directories, __init__ at different levels, same names at different depths
UnivB == << F(R, "n", "py"), F(R, "q", "pyi"),
            F(RP, "n", "py"), F(RPP, "m", "py"), F(RPQ, "__init__", "pyi"), F(RPQ, "m", "py"), F(RPQ, "n", "pyi"),
            F(RQ, "__init__", "py"), F(RQ, "p", "py"), F(RQP, "__init__", "py"), F(RQP, "m", "py"),
            F(RQQ, "m", "pyi") >>

\* D: a directory named like the tree root inside it, so that one dotted name (r.p.m) exists below
\* two search roots (the scratch directory and the tree root) with different __init__ levels
RR == <<"r", "r">>
RRP == <<"r", "r", "p">>
RRQ == <<"r", "r", "q">>
UnivD == << F(R, "n", "py"), F(RP, "__init__", "py"), F(RP, "m", "py"), F(RP, "m", "pyi"),
            F(RQ, "m", "py"), F(RR, "__init__", "py"), F(RR, "n", "py"),
            F(RRP, "__init__", "pyi"), F(RRP, "m", "py"), F(RRP, "n", "py"), F(RRQ, "m", "py"),
            F(RPQ, "m", "py") >>

\* C: two shadowed module files of the same name under different base directories (search
\* order), stub packages
UnivC == << F(R, "n", "py"), F(R, "p", "py"), F(R, "p", "pyi"),
            F(RP, "m", "py"), F(RP, "__init__", "pyi"), F(RP, "k", "pyi"),
            F(RQ, "q", "py"), F(RQ, "p", "py"), F(RQ, "n", "pyi"),
            F(RQP, "k", "py"), F(RQP, "__init__", "py"), F(RPQ, "n", "py") >>
====
