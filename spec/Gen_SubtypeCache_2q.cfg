SPECIFICATION Spec
CONSTANTS
  KeyOf <- BuildSubtypeKind
  Ask = "quick"
  MaxQ = 2
  MaxR = 1
INVARIANT Emit
