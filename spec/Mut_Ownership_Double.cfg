SPECIFICATION Spec
CONSTANT FSel <- SampleDouble
INVARIANT NoLeak
INVARIANT NoDoubleRelease
INVARIANT NoUndefRead
INVARIANT NoUseAfterRelease
INVARIANT Classified
