------------------------ MODULE Trace_Incremental ------------------------
(* Trace validation of recorded executions of mypy's cache protocol (protocol-only form of
   Incremental.tla: interface hashes and error lists are not logged; what is checked is the
   ORDER and the GUARDS of the store operations and freshness verdicts, run after run, across
   process deaths).  Events are recorded by harness/world.py after each operation:

     start                     a build begins (fresh process)
     fresh m / stale m         verdict of find_stale_sccs for user module m
     store write k m ok tick   MetadataStore.write of record kind k in {data, meta, meta_ex}
     store remove k m
     store commit_path shard / commit
     end                       the build returned      killed   the process died here

   Many traces are validated in one TLC run: `tid` picks the trace, `l` is the cursor.
   A trace is accepted iff a state with l = Len(trace)+1 is reachable (printed as ACC).
*)
EXTENDS Naturals, Sequences, FiniteSets, TLC, Json, IOUtils
Input == JsonDeserialize(IOEnv.TRACE_FILE)
Traces == Input.traces            \* sequence of [sqlite |-> BOOLEAN, mods |-> seq of names, ev |-> seq of events]
Progress == Input.progress        \* TRUE: print the cursor of every state (diagnosis run)
Kinds == {"data", "meta", "meta_ex"}

VARIABLES tid, l, inRun, verdict, phase, lastTick, durable, padd, pdel, metaOk
vars == <<tid, l, inRun, verdict, phase, lastTick, durable, padd, pdel, metaOk>>
T == Traces[tid]
E == T.ev[l]
Mods == {T.mods[i] : i \in 1..Len(T.mods)}
Visible(m) == (durable[m] \cup padd[m]) \ pdel[m]

Init == /\ tid \in 1..Len(Traces) /\ l = 1 /\ inRun = FALSE /\ lastTick = 0
        /\ verdict = [m \in {Traces[tid].mods[i] : i \in 1..Len(Traces[tid].mods)} |-> "?"]
        /\ phase = [m \in DOMAIN verdict |-> "none"]
        /\ durable = [m \in DOMAIN verdict |-> {}] /\ padd = durable /\ pdel = durable
        /\ metaOk = [m \in DOMAIN verdict |-> FALSE]

Is(e) == l <= Len(T.ev) /\ E.ev = e /\ l' = l + 1
Start == /\ Is("start") /\ ~inRun /\ inRun' = TRUE
         /\ verdict' = [m \in Mods |-> "?"] /\ phase' = [m \in Mods |-> "none"] /\ metaOk' = [m \in Mods |-> FALSE]
         /\ padd = [m \in Mods |-> {}] /\ pdel = [m \in Mods |-> {}]
         /\ UNCHANGED <<tid, lastTick, durable, padd, pdel>>
\* a module may be trusted only if all three of its records are there
Fresh == /\ Is("fresh") /\ inRun /\ verdict[E.mod] = "?"
         /\ Visible(E.mod) = Kinds
         /\ verdict' = [verdict EXCEPT ![E.mod] = "fresh"]
         /\ UNCHANGED <<tid, inRun, phase, lastTick, durable, padd, pdel, metaOk>>
Stale == /\ Is("stale") /\ inRun /\ verdict[E.mod] = "?"
         /\ verdict' = [verdict EXCEPT ![E.mod] = "stale"]
         /\ UNCHANGED <<tid, inRun, phase, lastTick, durable, padd, pdel, metaOk>>
Apply(m, k, add) ==
   IF T.sqlite
   THEN /\ padd' = [padd EXCEPT ![m] = IF add THEN @ \cup {k} ELSE @ \ {k}]
        /\ pdel' = [pdel EXCEPT ![m] = IF add THEN @ \ {k} ELSE @ \cup {k}]
        /\ UNCHANGED durable
   ELSE /\ durable' = [durable EXCEPT ![m] = IF add THEN @ \cup {k} ELSE @ \ {k}]
        /\ UNCHANGED <<padd, pdel>>
\* --- writes
Write == /\ Is("write") /\ inRun
         /\ E.tick > lastTick /\ lastTick' = E.tick              \* the logical clock only moves forward
         /\ LET m == E.mod  k == E.kind IN
            /\ verdict[m] # "fresh"                               \* records of a trusted module are never rewritten
            /\ CASE verdict[m] = "?" ->                           \* while loading: only the mtime-refresh of a valid meta
                      /\ k = "meta" /\ Visible(m) = Kinds /\ UNCHANGED <<phase, metaOk>>
                 [] k = "data" -> /\ phase[m] = "none" /\ phase' = [phase EXCEPT ![m] = "data"] /\ UNCHANGED metaOk
                 [] k = "meta" -> /\ phase[m] \in {"committed", "rmex"}
                                  /\ "meta_ex" \notin Visible(m)  \* never a new meta next to an old meta_ex
                                  /\ phase' = [phase EXCEPT ![m] = "meta"]
                                  /\ metaOk' = [metaOk EXCEPT ![m] = E.ok]
                 [] k = "meta_ex" -> /\ phase[m] = "meta" /\ metaOk[m]   \* only after this run's meta was written
                                     /\ phase' = [phase EXCEPT ![m] = "ex"] /\ UNCHANGED metaOk
            /\ IF E.ok THEN Apply(m, k, TRUE) ELSE UNCHANGED <<durable, padd, pdel>>
         /\ UNCHANGED <<tid, inRun, verdict>>
Remove == /\ Is("remove") /\ inRun
          /\ E.kind = "meta_ex" /\ verdict[E.mod] = "stale" /\ phase[E.mod] = "committed"
          /\ phase' = [phase EXCEPT ![E.mod] = "rmex"]
          /\ Apply(E.mod, "meta_ex", FALSE)
          /\ UNCHANGED <<tid, inRun, verdict, lastTick, metaOk>>
\* commit_path(shard): everything pending in that shard becomes durable
InShard(m) == E.shard = 99 \/ T.shard[m] = E.shard
Commit == /\ (Is("commit_path") \/ Is("commit")) /\ inRun
          /\ durable' = [m \in Mods |-> IF InShard(m) THEN Visible(m) ELSE durable[m]]
          /\ padd' = [m \in Mods |-> IF InShard(m) THEN {} ELSE padd[m]]
          /\ pdel' = [m \in Mods |-> IF InShard(m) THEN {} ELSE pdel[m]]
          /\ phase' = [m \in Mods |-> IF E.mod = m /\ verdict[m] = "stale" /\ phase[m] \in {"none", "data"} THEN "committed"
                                      ELSE IF E.mod = m /\ phase[m] \in {"meta", "ex"} THEN "done" ELSE phase[m]]
          /\ UNCHANGED <<tid, inRun, verdict, lastTick, metaOk>>
End == /\ Is("end") /\ inRun /\ inRun' = FALSE
       /\ \A m \in Mods : padd[m] = {} /\ pdel[m] = {}               \* nothing left uncommitted
       /\ \A m \in Mods : phase[m] \in {"none", "data", "committed", "rmex", "done"}
       /\ UNCHANGED <<tid, verdict, phase, lastTick, durable, padd, pdel, metaOk>>
Killed == /\ Is("killed") /\ inRun /\ inRun' = FALSE
          /\ padd' = [m \in Mods |-> {}] /\ pdel' = [m \in Mods |-> {}]   \* uncommitted writes die with the process
          /\ UNCHANGED <<tid, verdict, phase, lastTick, durable, metaOk>>
Next == Start \/ Fresh \/ Stale \/ Write \/ Remove \/ Commit \/ End \/ Killed
Spec == Init /\ [][Next]_vars

Accepted == l = Len(T.ev) + 1
Report == /\ (Accepted => PrintT(<<"ACC", tid>>))
          /\ (Progress => PrintT(<<"AT", tid, l>>))
==========================================================================
