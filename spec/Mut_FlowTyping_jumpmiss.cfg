SPECIFICATION Spec
CONSTANT Classes <- M_Classes
CONSTANT Vars <- S1_Vars
CONSTANT ParamTypes <- M_Param
CONSTANT LocalTypes <- None
CONSTANT RetTypes <- S1_Ret
CONSTANT HelperTypes <- S2_Helper
CONSTANT CondKinds <- Opq
CONSTANT LoopCondKinds <- Opq
CONSTANT StmtKinds <- M_Kinds
CONSTANT MaxStmts = 4
CONSTANT MaxDepth = 2
CONSTANT DoRun = TRUE
CONSTANT DoEmit = FALSE
CONSTANT Mutant = "jumpmiss"
CONSTANT FlagAwareJoin = TRUE
CONSTANT AsgToks <- AllAsg
CONSTANT IfVars <- S1_Vars
CONSTANT LoopVars <- S1_Vars
CONSTANT HeaderExprs <- AllHeaderExprs
INVARIANT MemberOK
INVARIANT RevealOK
INVARIANT ReachOK
INVARIANT NoWrong
