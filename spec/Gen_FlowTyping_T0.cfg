SPECIFICATION Spec
CONSTANT Classes <- T1_Classes
CONSTANT Vars <- F_Vars
CONSTANT ParamTypes <- T1_Param
CONSTANT LocalTypes <- T1_Local
CONSTANT RetTypes <- S1_Ret
CONSTANT HelperTypes <- S2_Helper
CONSTANT CondKinds <- T1_Conds
CONSTANT LoopCondKinds <- T1_Conds
CONSTANT StmtKinds <- T1_Kinds
CONSTANT MaxStmts = 5
CONSTANT MaxDepth = 1
CONSTANT DoRun = FALSE
CONSTANT DoEmit = TRUE
CONSTANT Mutant = "none"
CONSTANT FlagAwareJoin = TRUE
CONSTANT AsgToks <- T0_Asg
CONSTANT IfVars <- T1_IfVars
CONSTANT LoopVars <- T1_LoopVars
CONSTANT HeaderExprs <- T1_Header
INVARIANT BinderShape
INVARIANT Balanced
INVARIANT Emit
