------------------------------ MODULE FlowTyping ------------------------------
(* C01 -- accepted programs do not go wrong (flow-sensitive narrowing / join / call-compatibility core).

   One behaviour = one program of a small imperative language, built token by token (phase "gen"),
   then type-checked by a transcription of mypy's flow-sensitive machinery (phase "chk": one action per
   statement kind the real checker visits), then executed by a concrete small-step semantics on every
   input (phase "run").  Invariants over the run phase say that an accepted program does not go wrong.

   Language.  Classes A (method m), B(A) final, C(A) final, E(A) final with __bool__ returning False,
   D final and unrelated (no m); None.  A type is a set of atoms (the items of a simplified union;
   {} = Never); "N" is None.  A function
        def f(x: tx) -> r:
            y: ty = e0                       (only when "y" \in Vars; an annotated assignment: does NOT narrow)
            <tokens>
   Tokens (field k):  asg v = e | if q | else | end | while q | brk | cnt | ret e | call use_t(v) | meth v.m()
                      | match v: case K(): | case K():      (class patterns without arguments; closed by end)
   Expressions e:     new K() | none | var w.      Conditions q: isinstance(v,K) | v is None | v is not None
                      | v (truthiness) | cond() (opaque: an input of the run).

   Static semantics = what the real code does for this fragment (anchors):
     mypy/binder.py     ConditionalTypeBinder: frames, options_on_return, push_frame, put, _get, unreachable,
                        is_unreachable, allow_jump, pop_frame(can_skip, fall_through), update_from_options
                        (reachable options only; skip when an option knows nothing; skip when all options are
                        reachable and none is from_assignment; make_simplified_union of the distinct option
                        types; write back when different; `changed`), assign_type (only when the r-value type is
                        a subtype of the declared type), handle_break / handle_continue, top_frame_context.
     mypy/checker.py    visit_block (statements after the binder became unreachable are skipped),
                        visit_if_stmt (frames F1{ F2{if_map; body}; else_map; F3{else body} }),
                        visit_while_stmt / accept_loop (W1{ repeat W2{IfStmt} until not last_pop_changed or
                        iter > 3; else_map of the exit condition with from_assignment=True }),
                        visit_return_stmt / check_return_stmt, check_assignment (annotated: no assign_type),
                        check_func_def (missing return), visit_match_stmt (M1{ Mc{pattern_map; body}; else_map; ...
                        M2{} }) + checkpattern.py visit_class_pattern, find_isinstance_check_helper, conditional_types(
                        _with_intersection), narrow_type_by_identity_equality (is / is not None),
                        true_only / false_only (typeops.py), restrict_subtype_away, make_simplified_union.
     mypy/checkexpr.py  check_argument_types (call), analyze_union_member_access / has-no-attribute (x.m()).
     mypy/messages.py   iteration_dependent_errors: a reveal_type inside a loop reports the simplified union of
                        the types of all iterations (gam), the type map keeps the last visit (gamL).
*)
EXTENDS Naturals, Sequences, FiniteSets, TLC, Json

CONSTANTS
  Classes,        \* classes usable in constructors and isinstance: subset of {"A","B","C","D","E"}
  Vars,           \* {"x"} or {"x","y"}
  ParamTypes,     \* declared types of parameter x
  LocalTypes,     \* declared types of local y
  RetTypes,       \* declared return types
  HelperTypes,    \* declared parameter types of the helper functions use_t
  CondKinds,      \* condition kinds allowed in `if`:    subset of {"isi","isn","nn","tru","opq"}
  LoopCondKinds,  \* condition kinds allowed in `while`
  StmtKinds,      \* subset of {"asg","if","else","while","brk","cnt","ret","call","meth","match"}
  MaxStmts,       \* statements per function (else / end are free)
  MaxDepth,       \* nesting depth of if / while
  DoRun,          \* BOOLEAN: explore the executions of accepted programs
  DoEmit,         \* BOOLEAN: print every checked program with its Gamma (for replay into real mypy + CPython)
  AsgToks,        \* the assignment statements that may be generated (subset of AllAsg)
  IfVars, LoopVars,   \* variables that may be tested in `if` / `while` conditions (subsets of Vars)
  HeaderExprs,    \* initialisers allowed for y (subset of {new K, none, var x})
  Mutant,         \* "none", or the name of a deliberately wrong variant of the static semantics (non-vacuity)
  FlagAwareJoin   \* FALSE: binder.update_from_options as in the pinned tree (duplicate option types are detected with
                  \* an equality that ignores truthiness flags, the first option's flags survive -- unsound, finding
                  \* C01/1); TRUE: the candidate repair (options that differ in flags are merged by the union)

VARIABLES
  phase,          \* "hdr" | "gen" | "chk" | "fin" | "run" | "end"
  hdr,            \* [tx, ty, e0, r]
  prog,           \* sequence of tokens
  lnk,            \* lnk[i]: if/while -> its else (or end); else -> its end; match/case -> next case (or end);
                  \*         end -> its header; others 0
  encl,           \* encl[i]: position of the innermost enclosing while header of token i (0: none)
  open,           \* stack of open blocks while generating: [k |-> "if"|"else"|"while"|"match"|"case", pos, hd (header), n (cases)]
  nst,            \* number of statements generated
  \* ---- checker (phase "chk")
  cpc,            \* position of the token the checker visits next (Len(prog)+1 = end of the function body)
  b,              \* the binder: [frames, opts, brk, cnt, lpc]
  ctl,            \* stack of the statements being visited: [k |-> "if"|"else"|"while", em, it]
  gam,            \* gam[i]  = [seen, ty]: union over all visits of the narrowed types at point i (reveal_type)
  gamL,           \* gamL[i] = [seen, ty]: narrowed types at the last reachable visit of point i (type map)
  errs,           \* positions with a reported error (0 = header, Len+1 = missing return)
  \* ---- execution (phase "run")
  rpc, env, retv, wrong

genVars == <<hdr, prog, lnk, encl, open, nst>>
chkVars == <<cpc, b, ctl, gam, gamL, errs>>
runVars == <<rpc, env, retv, wrong>>
vars == <<phase, genVars, chkVars, runVars>>

\* ------------------------------------------------------------------------------------ types
Atoms == {"A", "B", "C", "D", "E", "N"}
SubPairs == {<<"B", "A">>, <<"C", "A">>, <<"E", "A">>}          \* proper nominal subtyping
SubAtom(s, t) == s = t \/ <<s, t>> \in SubPairs
HasM == {"A", "B", "C", "E"}                                     \* classes with method m
Falsy(c) == c \in {"N", "E"}     \* at run time

\* Truthiness flags.  true_only / false_only return *copies* of an Instance with can_be_false / can_be_true switched
\* off.  Type equality, subtyping and reveal_type ignore the flags, later truthiness tests do not.  Only A (not final)
\* and E (defines __bool__) can carry one: "At" = A that cannot be false, "Af" = A that cannot be true, same for E.
\* B, C, D (final, no __bool__) can never be false, None can never be true.
Base(a) == IF a \in {"At", "Af"} THEN "A" ELSE IF a \in {"Et", "Ef"} THEN "E" ELSE a
Flag(a) == IF a \in {"At", "Et"} THEN "t" ELSE IF a \in {"Af", "Ef"} THEN "f" ELSE "-"
MkT(x) == IF x = "A" THEN "At" ELSE IF x = "E" THEN "Et" ELSE x
MkF(x) == IF x = "A" THEN "Af" ELSE IF x = "E" THEN "Ef" ELSE x
Bases(t) == {Base(a) : a \in t}
CBT(a) == Base(a) # "N" /\ Flag(a) # "f"                        \* can_be_true
CBF(a) == Base(a) \in {"A", "E", "N"} /\ Flag(a) # "t"          \* can_be_false

IsSubtype(s, t) == \A a \in s : \E c \in t : SubAtom(Base(a), Base(c))
\* make_simplified_union: items that are proper subtypes of (or equal to) another item are removed; the kept item
\* takes the "more general truthiness" of what was merged into it (typeops._remove_redundant_union_items)
Simplify(S) ==
  {LET C == {a \in S : SubAtom(Base(a), x)} IN
     IF \A c \in C : ~CBT(c) THEN MkF(x) ELSE IF \A c \in C : ~CBF(c) THEN MkT(x) ELSE x
   : x \in {y \in Bases(S) : ~\E z \in Bases(S) : z # y /\ SubAtom(y, z)}}
Meaning(t) == {c \in Atoms : \E a \in t : SubAtom(c, Base(a))}    \* run-time classes of the members of t
Values == Classes \cup {"N"}
Only(S) == CHOOSE a \in S : TRUE

\* ------------------------------------------------------------------------------------ syntax
NoE == [ek |-> "-", c |-> "-", w |-> "-"]
NoQ == [qk |-> "-", v |-> "-", c |-> "-"]
ENew(K) == [ek |-> "new", c |-> K, w |-> "-"]
ENone == [ek |-> "none", c |-> "-", w |-> "-"]
EVar(w) == [ek |-> "var", c |-> "-", w |-> w]
Exprs == {ENew(K) : K \in Classes} \cup {ENone} \cup {EVar(w) : w \in Vars}

QOf(kinds, vs) ==
  {[qk |-> "isi", v |-> v, c |-> K] : v \in vs, K \in (IF "isi" \in kinds THEN Classes ELSE {})}
  \cup {[qk |-> k, v |-> v, c |-> "-"] : v \in vs, k \in kinds \cap {"isn", "nn", "tru"}}
  \cup {[qk |-> "opq", v |-> "-", c |-> "-"] : k \in kinds \cap {"opq"}}

Tok(k, v, e, q, t) == [k |-> k, v |-> v, e |-> e, q |-> q, t |-> t]
AllAsg == {Tok("asg", v, e, NoQ, {}) : v \in Vars, e \in Exprs}
SimpleToks(inLoop) ==
  (IF "asg" \in StmtKinds THEN AsgToks ELSE {})
  \cup {Tok("ret", "-", e, NoQ, {}) : e \in (IF "ret" \in StmtKinds THEN Exprs ELSE {})}
  \cup {Tok("call", v, NoE, NoQ, t) : v \in Vars, t \in (IF "call" \in StmtKinds THEN HelperTypes ELSE {})}
  \cup {Tok("meth", v, NoE, NoQ, {}) : v \in (IF "meth" \in StmtKinds THEN Vars ELSE {})}
  \cup {Tok(k, "-", NoE, NoQ, {}) : k \in (IF inLoop THEN StmtKinds \cap {"brk", "cnt"} ELSE {})}

Decl(v) == IF v = "x" THEN hdr.tx ELSE hdr.ty
N == Len(prog)
Top(s) == s[Len(s)]
Front(s) == SubSeq(s, 1, Len(s) - 1)
MaxOf(S) == CHOOSE i \in S : \A j \in S : j <= i

\* ------------------------------------------------------------------------------------ phase "gen"
Init ==
  /\ phase = "hdr"
  /\ hdr = [tx |-> {}, ty |-> {}, e0 |-> NoE, r |-> {}]
  /\ prog = <<>> /\ lnk = <<>> /\ encl = <<>> /\ open = <<>> /\ nst = 0
  /\ cpc = 0 /\ b = [frames |-> <<>>, opts |-> <<>>, brk |-> <<>>, cnt |-> <<>>, lpc |-> FALSE]
  /\ ctl = <<>> /\ gam = <<>> /\ gamL = <<>> /\ errs = {}
  /\ rpc = 0 /\ env = [v \in Vars |-> "-"] /\ retv = "-" /\ wrong = "-"

GenHeader ==
  /\ phase = "hdr"
  /\ \E tx \in ParamTypes, r \in RetTypes :
       IF "y" \in Vars
       THEN \E ty \in LocalTypes, e0 \in HeaderExprs :
              hdr' = [tx |-> tx, ty |-> ty, e0 |-> e0, r |-> r]
       ELSE hdr' = [tx |-> tx, ty |-> {}, e0 |-> NoE, r |-> r]
  /\ phase' = "gen"
  /\ UNCHANGED <<prog, lnk, encl, open, nst, chkVars, runVars>>

CurLoop == IF \E i \in 1..Len(open) : open[i].k = "while"
           THEN open[MaxOf({i \in 1..Len(open) : open[i].k = "while"})].pos ELSE 0
AfterJump == N > 0 /\ prog[N].k \in {"brk", "cnt", "ret"}     \* the rest of the block would be dead code

GenSimple ==
  /\ phase = "gen" /\ nst < MaxStmts /\ ~AfterJump
  /\ \E t \in SimpleToks(CurLoop # 0) :
       /\ prog' = Append(prog, t)
       /\ lnk' = Append(lnk, 0) /\ encl' = Append(encl, CurLoop)
  /\ nst' = nst + 1
  /\ UNCHANGED <<phase, hdr, open, chkVars, runVars>>

GenIf ==
  /\ phase = "gen" /\ nst < MaxStmts /\ ~AfterJump /\ Len(open) < MaxDepth /\ "if" \in StmtKinds
  /\ \E q \in QOf(CondKinds, IfVars) : prog' = Append(prog, Tok("if", "-", NoE, q, {}))
  /\ lnk' = Append(lnk, 0) /\ encl' = Append(encl, CurLoop)
  /\ open' = Append(open, [k |-> "if", pos |-> N + 1, hd |-> N + 1, n |-> 0])
  /\ nst' = nst + 1
  /\ UNCHANGED <<phase, hdr, chkVars, runVars>>

GenWhile ==
  /\ phase = "gen" /\ nst < MaxStmts /\ ~AfterJump /\ Len(open) < MaxDepth /\ "while" \in StmtKinds
  /\ \E q \in QOf(LoopCondKinds, LoopVars) : prog' = Append(prog, Tok("while", "-", NoE, q, {}))
  /\ lnk' = Append(lnk, 0) /\ encl' = Append(encl, CurLoop)
  /\ open' = Append(open, [k |-> "while", pos |-> N + 1, hd |-> N + 1, n |-> 0])
  /\ nst' = nst + 1
  /\ UNCHANGED <<phase, hdr, chkVars, runVars>>

GenElse ==
  /\ phase = "gen" /\ Len(open) > 0 /\ Top(open).k = "if" /\ "else" \in StmtKinds
  /\ nst < MaxStmts                                   \* an else body is never empty
  /\ prog' = Append(prog, Tok("else", "-", NoE, NoQ, {}))
  /\ lnk' = [Append(lnk, 0) EXCEPT ![Top(open).pos] = N + 1]        \* if -> its else
  /\ encl' = Append(encl, CurLoop)
  /\ open' = [open EXCEPT ![Len(open)] = [k |-> "else", pos |-> N + 1, hd |-> Top(open).pos, n |-> 0]]
  /\ UNCHANGED <<phase, hdr, nst, chkVars, runVars>>

IsiQ(v, K) == [qk |-> "isi", v |-> v, c |-> K]
GenMatch ==        \* `match v:` together with its first `case K():`
  /\ phase = "gen" /\ nst < MaxStmts /\ ~AfterJump /\ Len(open) < MaxDepth /\ "match" \in StmtKinds
  /\ \E v \in Vars, K \in Classes : prog' = Append(prog, Tok("match", v, NoE, IsiQ(v, K), {}))
  /\ lnk' = Append(lnk, 0) /\ encl' = Append(encl, CurLoop)
  /\ open' = Append(open, [k |-> "match", pos |-> N + 1, hd |-> N + 1, n |-> 1])
  /\ nst' = nst + 1
  /\ UNCHANGED <<phase, hdr, chkVars, runVars>>

GenCase ==         \* a further `case K():` (at most three cases per match)
  /\ phase = "gen" /\ Len(open) > 0 /\ Top(open).k \in {"match", "case"}
  /\ Top(open).n < 3 /\ nst < MaxStmts               \* a case counts as a statement
  /\ \E K \in Classes : prog' = Append(prog, Tok("case", prog[Top(open).hd].v, NoE, IsiQ(prog[Top(open).hd].v, K), {}))
  /\ lnk' = [Append(lnk, 0) EXCEPT ![Top(open).pos] = N + 1]
  /\ encl' = Append(encl, CurLoop)
  /\ open' = [open EXCEPT ![Len(open)] = [k |-> "case", pos |-> N + 1, hd |-> Top(open).hd, n |-> Top(open).n + 1]]
  /\ nst' = nst + 1
  /\ UNCHANGED <<phase, hdr, chkVars, runVars>>

GenEnd ==
  /\ phase = "gen" /\ Len(open) > 0
  /\ prog[N].k # "else"
  /\ prog' = Append(prog, Tok("end", "-", NoE, NoQ, {}))
  /\ lnk' = [Append(lnk, Top(open).hd) EXCEPT ![Top(open).pos] = N + 1]   \* end -> header; if/else/while -> end
  /\ encl' = Append(encl, IF Top(open).k = "while" THEN Top(open).pos ELSE CurLoop)
  /\ open' = Front(open)
  /\ UNCHANGED <<phase, hdr, nst, chkVars, runVars>>

\* ------------------------------------------------------------------------------------ the binder
NoEnt == [has |-> FALSE, ty |-> {}, fa |-> FALSE]
Ent(t, f) == [has |-> TRUE, ty |-> t, fa |-> f]
EmptyFrame == [types |-> [v \in Vars |-> NoEnt], unr |-> FALSE]

Push(bb) == [bb EXCEPT !.frames = Append(@, EmptyFrame), !.opts = Append(@, <<>>)]
Put(bb, v, t, f) == [bb EXCEPT !.frames[Len(bb.frames)].types[v] = Ent(t, f)]
Unr(bb) == [bb EXCEPT !.frames[Len(bb.frames)].unr = TRUE]
IsUnr(bb) == \E i \in 1..Len(bb.frames) : bb.frames[i].unr

\* _get: the entry of the topmost frame (at or below idx) that has one
GetIn(frames, v, from, to) ==
  LET S == {i \in from..to : frames[i].types[v].has} IN IF S = {} THEN NoEnt ELSE frames[MaxOf(S)].types[v]
Get(bb, v) == GetIn(bb.frames, v, 1, Len(bb.frames))
\* the type of a *read* of v: checkexpr.narrow_type_from_binder -> meet.narrow_declared_type(declared, binder type):
\* an item equal (flags ignored) to a declared item comes back as the declared item, i.e. without its flag
TypeOf(bb, v) == IF Get(bb, v).has THEN {IF Base(a) \in Decl(v) THEN Base(a) ELSE a : a \in Get(bb, v).ty} ELSE Decl(v)

\* allow_jump(index): j = index + 1 (1-based position in opts); snapshot of the frames above frame j
AllowJump(bb, j) ==
  LET lo == IF Mutant = "jumpmiss" THEN j + 2 ELSE j + 1
      snap == [types |-> [v \in Vars |-> GetIn(bb.frames, v, lo, Len(bb.frames))],
               unr |-> \E i \in (j + 1)..Len(bb.frames) : bb.frames[i].unr]
  IN [bb EXCEPT !.opts[j] = Append(@, snap)]

UpdateFromOptions(bb, options) ==
  LET allReach == \A i \in 1..Len(options) : ~options[i].unr
      fr0 == SelectSeq(options, LAMBDA f : ~f.unr)
      fr == IF Mutant = "dropopt" /\ Len(fr0) > 1 THEN Tail(fr0) ELSE fr0
      top == Len(bb.frames)
      cur(v) == Get(bb, v)
      rv(v, i) == IF fr[i].types[v].has THEN fr[i].types[v] ELSE cur(v)
      inKeys(v) == \E i \in 1..Len(fr) : fr[i].types[v].has
      skip(v) == \/ \E i \in 1..Len(fr) : ~rv(v, i).has
                 \/ allReach /\ \A i \in 1..Len(fr) : ~rv(v, i).fa
      \* `if rv.type in seen_types: continue`: Type.__eq__ ignores the truthiness flags, the first option wins
      tys(v) == {IF FlagAwareJoin THEN rv(v, i).ty ELSE Bases(rv(v, i).ty) : i \in 1..Len(fr)}
      ty(v) == IF Cardinality(tys(v)) = 1 THEN rv(v, 1).ty ELSE Simplify(UNION {rv(v, i).ty : i \in 1..Len(fr)})
      upd(v) == inKeys(v) /\ ~skip(v) /\ (~cur(v).has \/ Bases(ty(v)) # Bases(cur(v).ty))     \* is_same_type
      chg(v) == upd(v) /\ (cur(v).has \/ Bases(ty(v)) # Decl(v))
  IN [bb EXCEPT !.frames[top] = [types |-> [v \in Vars |-> IF upd(v) THEN Ent(ty(v), TRUE) ELSE @.types[v]],
                                 unr |-> Len(fr) = 0],
                !.lpc = \E v \in Vars : chg(v)]

\* pop_frame(can_skip, fall_through)
Pop(bb, canSkip, ft) ==
  LET b1 == IF ft > 0 THEN AllowJump(bb, Len(bb.opts) - ft + 1) ELSE bb
      n == Len(b1.frames)
      b2 == [b1 EXCEPT !.frames = Front(@), !.opts = Front(@)]
      options == IF canSkip /\ Mutant # "noskip" THEN <<b2.frames[n - 1]>> \o b1.opts[n - 1] ELSE b1.opts[n - 1]
  IN UpdateFromOptions(b2, options)

\* ------------------------------------------------------------------------------------ narrowing
MUnr == [m |-> "unr", ty |-> {}]              \* the branch can never be taken (type map None / Never)
MNone == [m |-> "none", ty |-> {}]            \* no new information ({} type map)
MPut(t) == IF t = {} THEN MUnr ELSE [m |-> "put", ty |-> t]
ApplyMap(bb, v, m, f) == IF m.m = "unr" THEN Unr(bb) ELSE IF m.m = "none" THEN bb ELSE Put(bb, v, m.ty, f)

\* conditional_types(cur, [TypeRange(K)]) + conditional_types_with_intersection, classes with final leaves
ItemYes(it, K) == IF SubAtom(Base(it), K) THEN {it} ELSE IF SubAtom(K, Base(it)) THEN {K} ELSE {}
ItemNo(it, K) == IF SubAtom(Base(it), K) THEN {}
                 ELSE IF Mutant = "elsedrop" /\ SubAtom(K, Base(it)) THEN {} ELSE {it}
IsiMaps(cur, K) ==
  IF Cardinality(cur) = 1
  THEN LET it == Only(cur) IN
       IF SubAtom(Base(it), K) THEN [i |-> MNone, e |-> MUnr]           \* (default, Never)
       ELSE IF SubAtom(K, Base(it)) THEN [i |-> MPut({K}), e |-> MPut(ItemNo(it, K))]
       ELSE IF it = "N" THEN [i |-> MUnr, e |-> MNone]                  \* (Never, default)
       ELSE [i |-> MUnr, e |-> MPut(cur)]                               \* failed ad-hoc intersection: (Never, expr_type)
  ELSE LET yes == Simplify(UNION {ItemYes(it, K) : it \in cur})
           no == Simplify(UNION {ItemNo(it, K) : it \in cur})
       IN [i |-> MPut(yes), e |-> MPut(no)]

\* narrow_type_by_identity_equality for `v is None`: conditional_types(cur, [TypeRange(None)], from_equality=True)
IsNoneMaps(cur) ==
  IF Cardinality(cur) = 1
  THEN IF cur = {"N"} THEN [i |-> MNone, e |-> MUnr] ELSE [i |-> MUnr, e |-> MNone]
  ELSE [i |-> MPut(cur \cap {"N"}), e |-> MPut(cur \ {"N"})]

\* typeops.true_only / false_only (item-wise on unions)
TrueOnly(cur) == {IF CBF(a) THEN MkT(Base(a)) ELSE a : a \in {c \in cur : CBT(c)}}
FalseOnly(cur) == {IF CBT(a) THEN MkF(Base(a)) ELSE a : a \in {c \in cur : CBF(c)}}
TruthMaps(cur) == [i |-> MPut(TrueOnly(cur)), e |-> MPut(FalseOnly(cur))]

CondMaps(bb, q) ==
  IF q.qk = "opq" THEN [i |-> MNone, e |-> MNone]
  ELSE LET cur == TypeOf(bb, q.v) IN
       IF q.qk = "isi" THEN IsiMaps(cur, q.c)
       ELSE IF q.qk = "isn" THEN IsNoneMaps(cur)
       ELSE IF q.qk = "nn" THEN [i |-> IsNoneMaps(cur).e, e |-> IsNoneMaps(cur).i]
       ELSE TruthMaps(cur)

ExprType(bb, e) == IF e.ek = "new" THEN {e.c} ELSE IF e.ek = "none" THEN {"N"} ELSE TypeOf(bb, e.w)

\* ------------------------------------------------------------------------------------ phase "chk"
Blank == [seen |-> FALSE, ty |-> [v \in Vars |-> {}]]
\* (reveal_type and the exported type map show no truthiness flags)
Rec(g, i, bb) == [g EXCEPT ![i] = [seen |-> TRUE, ty |-> [v \in Vars |-> Simplify(@.ty[v] \cup Bases(TypeOf(bb, v)))]]]
RecL(g, i, bb) == [g EXCEPT ![i] = [seen |-> TRUE, ty |-> [v \in Vars |-> Bases(TypeOf(bb, v))]]]

GenFinish ==
  /\ phase = "gen" /\ Len(open) = 0 /\ N > 0
  /\ phase' = "chk"
  /\ cpc' = 1
     \* TypeChecker.check_func_def: a fresh binder (one frame) + top_frame_context()
  /\ b' = [frames |-> <<EmptyFrame, EmptyFrame>>, opts |-> << <<>> >>, brk |-> <<>>, cnt |-> <<>>, lpc |-> FALSE]
  /\ ctl' = <<>>
  /\ gam' = [i \in 1..(N + 1) |-> Blank] /\ gamL' = [i \in 1..(N + 1) |-> Blank]
     \* header `y: ty = e0`: check_assignment with infer_lvalue_type = False: compatibility only, no assign_type
  /\ errs' = IF "y" \in Vars /\ ~IsSubtype(IF hdr.e0.ek = "var" THEN hdr.tx ELSE ExprType(b, hdr.e0), hdr.ty)
             THEN {0} ELSE {}
  /\ UNCHANGED <<genVars, runVars>>

\* closing token (else / end, or N+1) of the block that contains position i
RECURSIVE Close(_, _)
Close(i, d) ==
  IF i > N THEN i
  ELSE LET k == prog[i].k IN
       IF k \in {"if", "while", "match"} THEN Close(i + 1, d + 1)
       ELSE IF k = "end" THEN (IF d = 0 THEN i ELSE Close(i + 1, d - 1))
       ELSE IF k \in {"else", "case"} THEN (IF d = 0 THEN i ELSE Close(i + 1, d))
       ELSE Close(i + 1, d)

Visiting(k) == phase = "chk" /\ cpc <= N /\ prog[cpc].k = k
Here == prog[cpc]
Reach == ~IsUnr(b)
Note == /\ gam' = IF Reach THEN Rec(gam, cpc, b) ELSE gam
        /\ gamL' = IF Reach THEN RecL(gamL, cpc, b) ELSE gamL

\* visit_block: `if self.binder.is_unreachable(): ... break` -- the rest of the block is not visited
ChkSkip ==
  /\ phase = "chk" /\ cpc <= N /\ Here.k \notin {"else", "end", "case"} /\ ~Reach
  /\ cpc' = Close(cpc, 0)
  /\ UNCHANGED <<phase, genVars, b, ctl, gam, gamL, errs, runVars>>

\* check_assignment -> check_simple_assignment -> binder.assign_type
ChkAsg ==
  /\ Visiting("asg") /\ Reach /\ Note
  /\ LET t == ExprType(b, Here.e)
         ok == IsSubtype(t, Decl(Here.v))
     IN IF Mutant = "asgnocheck" THEN b' = Put(b, Here.v, t, TRUE) /\ errs' = errs
        ELSE /\ b' = IF ok THEN Put(b, Here.v, t, TRUE) ELSE b
             /\ errs' = IF ok THEN errs ELSE errs \cup {cpc}
  /\ cpc' = cpc + 1
  /\ UNCHANGED <<phase, genVars, ctl, runVars>>

\* the IfStmt part shared by `if` and by every iteration of `while`: F1{ F2{ if_map; ...
EnterIf(bb, q) ==
  LET b1 == Push(bb)                                  \* F1: can_skip=False, conditional_frame, fall_through=0
      m == CondMaps(b1, q)
      b2 == Push(b1)                                  \* F2: can_skip=True, fall_through=2
  IN [bb |-> ApplyMap(b2, q.v, m.i, FALSE), em |-> m.e]
\* ... }; else_map; F3{  (entered at the else token, or at end when there is no else)
EnterElse(bb, q, em) == Push(ApplyMap(Pop(bb, TRUE, 2), q.v, em, FALSE))   \* F3: can_skip=False, fall_through=2
\* ... } }
LeaveIf(bb) == Pop(Pop(bb, FALSE, 2), FALSE, 0)

ChkIf ==
  /\ Visiting("if") /\ Reach /\ Note
  /\ LET r == EnterIf(b, Here.q) IN
       /\ b' = r.bb
       /\ ctl' = Append(ctl, [k |-> "if", em |-> r.em, it |-> 0, pos |-> cpc])
  /\ cpc' = cpc + 1
  /\ UNCHANGED <<phase, genVars, errs, runVars>>

ChkElse ==
  /\ Visiting("else") /\ Note
  /\ b' = EnterElse(b, prog[Top(ctl).pos].q, Top(ctl).em)
  /\ ctl' = [ctl EXCEPT ![Len(ctl)].k = "else"]
  /\ cpc' = cpc + 1
  /\ UNCHANGED <<phase, genVars, errs, runVars>>

ChkEndIf ==
  /\ Visiting("end") /\ Top(ctl).k \in {"if", "else"} /\ Note
  /\ b' = IF Top(ctl).k = "if" THEN LeaveIf(EnterElse(b, prog[Top(ctl).pos].q, Top(ctl).em)) ELSE LeaveIf(b)
  /\ ctl' = Front(ctl)
  /\ cpc' = cpc + 1
  /\ UNCHANGED <<phase, genVars, errs, runVars>>

\* checkpattern.visit_class_pattern for `case K():` on a subject of type cur:
\* conditional_types_with_intersection(cur, [K], default=cur); no match -> early_non_match (Never, cur)
PatYes(cur, K) == Simplify(UNION {ItemYes(it, K) : it \in cur})
PatRest(cur, K) == IF PatYes(cur, K) = {} THEN cur ELSE Simplify(UNION {ItemNo(it, K) : it \in cur})
\* visit_match_stmt: M1{ per case: Mc{ pattern_map; body }; else_map } ; M2{} }
EnterCase(bb, q) ==
  LET cur == TypeOf(bb, q.v)
      b2 == Push(bb)                                   \* Mc: can_skip=True, fall_through=2
  IN [bb |-> ApplyMap(b2, q.v, MPut(PatYes(cur, q.c)), FALSE), em |-> MPut(PatRest(cur, q.c))]
LeaveCase(bb, q, em) == ApplyMap(Pop(bb, TRUE, 2), q.v, em, FALSE)
ChkMatch ==
  /\ Visiting("match") /\ Reach /\ Note
  /\ LET r == EnterCase(Push(b), Here.q) IN             \* M1: can_skip=False, fall_through=0
       /\ b' = r.bb
       /\ ctl' = Append(ctl, [k |-> "match", em |-> r.em, it |-> 0, pos |-> cpc])
  /\ cpc' = cpc + 1
  /\ UNCHANGED <<phase, genVars, errs, runVars>>
ChkCase ==
  /\ Visiting("case") /\ Note
  /\ LET r == EnterCase(LeaveCase(b, Here.q, Top(ctl).em), Here.q) IN
       /\ b' = r.bb
       /\ ctl' = [ctl EXCEPT ![Len(ctl)].em = r.em]
  /\ cpc' = cpc + 1
  /\ UNCHANGED <<phase, genVars, errs, runVars>>
ChkEndMatch ==
  /\ Visiting("end") /\ Top(ctl).k = "match" /\ Note
  /\ b' = Pop(Pop(Push(LeaveCase(b, prog[Top(ctl).pos].q, Top(ctl).em)), FALSE, 2), FALSE, 0)   \* M2{pass}; leave M1
  /\ ctl' = Front(ctl)
  /\ cpc' = cpc + 1
  /\ UNCHANGED <<phase, genVars, errs, runVars>>

\* accept_loop: W1{ W2{ IfStmt ...
EnterLoopIter(bb, q) ==
  LET b1 == [bb EXCEPT !.brk = Append(@, Len(bb.frames) - 1),     \* break_frame=2  -> options of W1
                       !.cnt = Append(@, Len(bb.frames))]         \* continue_frame=1 -> options of W2
  IN EnterIf(Push(b1), q)                                          \* W2: can_skip=True, fall_through=1
ChkWhile ==
  /\ Visiting("while") /\ Reach /\ Note
  /\ LET r == EnterLoopIter(Push(b), Here.q) IN                    \* W1: can_skip=False, conditional, fall_through=1
       /\ b' = r.bb
       /\ ctl' = Append(ctl, [k |-> "while", em |-> r.em, it |-> 1, pos |-> cpc])
  /\ cpc' = cpc + 1
  /\ UNCHANGED <<phase, genVars, errs, runVars>>

\* end of one iteration: ... } } leave the IfStmt, pop W2
AfterIter == LET q == prog[Top(ctl).pos].q
                 b1 == Pop(LeaveIf(EnterElse(b, q, Top(ctl).em)), TRUE, 1)
             IN [b1 EXCEPT !.brk = Front(@), !.cnt = Front(@)]
ChkLoopAgain ==
  /\ Visiting("end") /\ Top(ctl).k = "while" /\ Note
  /\ AfterIter.lpc /\ Top(ctl).it <= 3
  /\ LET r == EnterLoopIter(AfterIter, prog[Top(ctl).pos].q) IN
       /\ b' = r.bb
       /\ ctl' = [ctl EXCEPT ![Len(ctl)].em = r.em, ![Len(ctl)].it = @ + 1]
  /\ cpc' = Top(ctl).pos + 1
  /\ UNCHANGED <<phase, genVars, errs, runVars>>
ChkLoopExit ==
  /\ Visiting("end") /\ Top(ctl).k = "while" /\ Note
  /\ ~(AfterIter.lpc /\ Top(ctl).it <= 3)
  /\ LET q == prog[Top(ctl).pos].q
         m == CondMaps(AfterIter, q)                 \* exit_condition: push_type_map(else_map) (from_assignment=True)
     IN b' = Pop(ApplyMap(AfterIter, q.v, m.e, TRUE), FALSE, 1)
  /\ ctl' = Front(ctl)
  /\ cpc' = cpc + 1
  /\ UNCHANGED <<phase, genVars, errs, runVars>>

ChkBrk ==
  /\ Visiting("brk") /\ Reach /\ Note
  /\ b' = Unr(AllowJump(b, Top(b.brk)))
  /\ cpc' = cpc + 1
  /\ UNCHANGED <<phase, genVars, ctl, errs, runVars>>
ChkCnt ==
  /\ Visiting("cnt") /\ Reach /\ Note
  /\ b' = Unr(AllowJump(b, Top(b.cnt)))
  /\ cpc' = cpc + 1
  /\ UNCHANGED <<phase, genVars, ctl, errs, runVars>>

\* check_return_stmt: `-> None` accepts only an expression of type None; otherwise a subtype of r
ChkRet ==
  /\ Visiting("ret") /\ Reach /\ Note
  /\ LET t == ExprType(b, Here.e)
         ok == IF hdr.r = {"N"} THEN t = {"N"} ELSE IsSubtype(t, hdr.r)
     IN errs' = IF ok THEN errs ELSE errs \cup {cpc}
  /\ b' = Unr(b)
  /\ cpc' = cpc + 1
  /\ UNCHANGED <<phase, genVars, ctl, runVars>>

ChkCall ==
  /\ Visiting("call") /\ Reach /\ Note
  /\ errs' = IF IsSubtype(TypeOf(b, Here.v), Here.t) THEN errs ELSE errs \cup {cpc}
  /\ cpc' = cpc + 1
  /\ UNCHANGED <<phase, genVars, b, ctl, runVars>>

ChkMeth ==
  /\ Visiting("meth") /\ Reach /\ Note
  /\ errs' = IF Bases(TypeOf(b, Here.v)) \subseteq HasM THEN errs ELSE errs \cup {cpc}
  /\ cpc' = cpc + 1
  /\ UNCHANGED <<phase, genVars, b, ctl, runVars>>

\* end of check_func_def: missing return when the end of the body is reachable and r is not exactly None
ChkFinish ==
  /\ phase = "chk" /\ cpc = N + 1 /\ Note
  /\ errs' = IF Reach /\ hdr.r # {"N"} THEN errs \cup {N + 1} ELSE errs
  /\ b' = Pop(b, TRUE, 0)
  /\ cpc' = N + 2
  /\ phase' = "fin"
  /\ UNCHANGED <<genVars, ctl, runVars>>

Accepted == errs = {}

\* ------------------------------------------------------------------------------------ phase "run"
ValOf(e, en) == IF e.ek = "new" THEN e.c ELSE IF e.ek = "none" THEN "N" ELSE en[e.w]
Holds(q, en) == IF q.qk = "isi" THEN en[q.v] # "N" /\ SubAtom(en[q.v], q.c)
                ELSE IF q.qk = "isn" THEN en[q.v] = "N"
                ELSE IF q.qk = "nn" THEN en[q.v] # "N"
                ELSE ~Falsy(en[q.v])

RunStart ==
  /\ phase = "fin" /\ DoRun /\ Accepted
  /\ \E xv \in Meaning(hdr.tx) \cap Values :
       env' = [v \in Vars |-> IF v = "x" THEN xv ELSE ValOf(hdr.e0, [w \in Vars |-> xv])]
  /\ rpc' = 1 /\ phase' = "run"
  /\ UNCHANGED <<genVars, chkVars, retv, wrong>>

At(k) == phase = "run" /\ rpc <= N /\ prog[rpc].k = k
Tk == prog[rpc]
Stay == UNCHANGED <<phase, genVars, chkVars, retv, wrong>>

RunAsg == At("asg") /\ env' = [env EXCEPT ![Tk.v] = ValOf(Tk.e, env)] /\ rpc' = rpc + 1 /\ Stay
\* evaluation of the condition of the if / while at h (an opaque cond() may go either way)
TestTargets(h, en) ==
  {IF t THEN h + 1 ELSE lnk[h] + 1 : t \in (IF prog[h].q.qk = "opq" THEN BOOLEAN ELSE {Holds(prog[h].q, en)})}
RunTest == (At("if") \/ At("while")) /\ rpc' \in TestTargets(rpc, env) /\ UNCHANGED env /\ Stay
\* match: the first case whose class pattern matches, else past the end
RECURSIVE CaseTarget(_, _)
CaseTarget(i, en) == IF prog[i].k = "end" THEN i + 1
                     ELSE IF Holds(prog[i].q, en) THEN i + 1 ELSE CaseTarget(lnk[i], en)
RECURSIVE MatchEnd(_)
MatchEnd(i) == IF prog[i].k = "end" THEN i ELSE MatchEnd(lnk[i])
RunMatch == At("match") /\ rpc' = CaseTarget(rpc, env) /\ UNCHANGED env /\ Stay
RunCase == At("case") /\ rpc' = MatchEnd(rpc) + 1 /\ UNCHANGED env /\ Stay      \* the previous case body fell through
RunElse == At("else") /\ rpc' = lnk[rpc] + 1 /\ UNCHANGED env /\ Stay      \* the if body fell through
\* end of a loop body / continue: back to the loop *test* (the point before the while statement is passed once)
RunEnd == /\ At("end")
          /\ rpc' \in (IF prog[lnk[rpc]].k = "while" THEN TestTargets(lnk[rpc], env) ELSE {rpc + 1})
          /\ UNCHANGED env /\ Stay
RunBrk == At("brk") /\ rpc' = lnk[encl[rpc]] + 1 /\ UNCHANGED env /\ Stay
RunCnt == At("cnt") /\ rpc' \in TestTargets(encl[rpc], env) /\ UNCHANGED env /\ Stay
RunRet == /\ At("ret")
          /\ retv' = ValOf(Tk.e, env)
          /\ wrong' = IF ValOf(Tk.e, env) \in Meaning(hdr.r) THEN wrong ELSE "ret"
          /\ phase' = "end" /\ UNCHANGED <<genVars, chkVars, rpc, env>>
RunCall == /\ At("call")
           /\ wrong' = IF env[Tk.v] \in Meaning(Tk.t) THEN wrong ELSE "arg"    \* a value outside the parameter's type
           /\ phase' = IF env[Tk.v] \in Meaning(Tk.t) THEN phase ELSE "end"
           /\ rpc' = rpc + 1 /\ UNCHANGED <<genVars, chkVars, env, retv>>
RunMeth == /\ At("meth")
           /\ wrong' = IF env[Tk.v] \in HasM THEN wrong ELSE "attr"            \* AttributeError
           /\ phase' = IF env[Tk.v] \in HasM THEN phase ELSE "end"
           /\ rpc' = rpc + 1 /\ UNCHANGED <<genVars, chkVars, env, retv>>
RunFall == /\ phase = "run" /\ rpc = N + 1                                      \* fell off the end: returns None
           /\ retv' = "N" /\ wrong' = IF "N" \in Meaning(hdr.r) THEN wrong ELSE "ret"
           /\ phase' = "end" /\ UNCHANGED <<genVars, chkVars, rpc, env>>

Next ==
  \/ GenHeader \/ GenSimple \/ GenIf \/ GenWhile \/ GenElse \/ GenMatch \/ GenCase \/ GenEnd \/ GenFinish
  \/ ChkSkip \/ ChkAsg \/ ChkIf \/ ChkElse \/ ChkEndIf \/ ChkWhile \/ ChkLoopAgain \/ ChkLoopExit
  \/ ChkBrk \/ ChkCnt \/ ChkRet \/ ChkCall \/ ChkMeth \/ ChkMatch \/ ChkCase \/ ChkEndMatch \/ ChkFinish
  \/ RunStart \/ RunAsg \/ RunTest \/ RunElse \/ RunMatch \/ RunCase \/ RunEnd \/ RunBrk \/ RunCnt \/ RunRet \/ RunCall \/ RunMeth \/ RunFall

Spec == Init /\ [][Next]_vars

\* ------------------------------------------------------------------------------------ properties
\* (only accepted programs are run, see RunStart)
\* every value a variable holds at a program point is a member of the type assigned to it there
MemberOK == phase = "run" /\ gamL[rpc].seen => \A v \in Vars : env[v] \in Meaning(gamL[rpc].ty[v])
RevealOK == phase = "run" /\ gam[rpc].seen => \A v \in Vars : env[v] \in Meaning(gam[rpc].ty[v])
\* no statement (or probe point) the checker skipped as unreachable is ever executed
ReachOK == phase = "run" => gam[rpc].seen
\* no AttributeError, no argument outside the callee's parameter type, no return value outside r
NoWrong == wrong = "-"

\* structural sanity of the transcription
BinderShape == phase = "chk" => /\ Len(b.opts) = Len(b.frames) - 1
                                /\ Len(b.brk) = Len(b.cnt)
                                /\ \A i \in 1..Len(b.frames) : \A v \in Vars :
                                     b.frames[i].types[v].has => /\ b.frames[i].types[v].ty # {}
                                                                 /\ IsSubtype(b.frames[i].types[v].ty, Decl(v))
Balanced == phase = "fin" => ctl = <<>> /\ Len(b.frames) = 1

\* emission for replay: compact JSON arrays (decoded by harness/drivers/c01.py: programs_of)
TokC(t) == <<t.k, t.v, t.e.ek, t.e.c, t.e.w, t.q.qk, t.q.v, t.q.c, t.t>>
GamC(g) == [i \in 1..Len(g) |-> <<g[i].seen, g[i].ty["x"], IF "y" \in Vars THEN g[i].ty["y"] ELSE {}>>]
Emit == (DoEmit /\ phase = "fin") =>
          PrintT(<<"PROG", ToJson(<< <<hdr.tx, hdr.ty, hdr.e0.ek, hdr.e0.c, hdr.e0.w, hdr.r>>,
                                     [i \in 1..N |-> TokC(prog[i])],
                                     GamC(gam), IF gamL = gam THEN <<>> ELSE GamC(gamL), errs >>)>>)
=============================================================================
