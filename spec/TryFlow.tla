------------------------------ MODULE TryFlow ------------------------------
(* C01, try statements: the runtime side of "accepted programs do not go wrong" for nested try / except.

   FlowTyping.tla has no try statements.  This module specifies the programs of a small try fragment and their
   executions under EVERY exception point (the operational semantics of CPython's try / except with handler
   classes), so that the driver can (1) replay each emitted (program, raise schedule) in CPython and compare the
   outcome with the one specified here (binding of this semantics), and (2) ask real mypy for its verdict on the
   program: an accepted program with an execution that ends in `wrong` breaks the property.

   The function is      def f(n: int) -> None:
                            x: Optional[int] = None
                            x = n                      # x narrowed to int by assignment
                            <body>
   Tokens of <body>:  "N"  x = None        "I"  x = 7        "B"  boom()   (may raise ValueError)
                      "U"  x + 1           (TypeError at run time when x is None)
                      "T"  try:            "XV" except ValueError:    "XK" except KeyError:    "E" end of the try statement
   A program is generated token by token (never filtered in Init); a try body is never empty, a handler may be.

   mypy's side (binder.py: try_frames, allow_jump on every assignment into EVERY enclosing try frame;
   checker.visit_try_stmt) is not transcribed: mypy's own verdict is used.  What the static rule has to get right
   is visible in the executions: an exception raised in an inner body that the inner handler does not catch
   reaches the outer handler with the variable state of the raise point.
*)
EXTENDS Naturals, Sequences, FiniteSets, TLC, Json
CONSTANTS MaxLen, MaxDepth, MaxTry, MaxUse, MaxBoom
VARIABLES phase,      \* "gen" "run" "fin"
          prog,       \* sequence of tokens
          open,       \* generation: stack of [k |-> "T" | "X", pos]
          pc, x,      \* run: program counter, value of x ("I" an int, "N" None)
          sched,      \* run: what each executed boom() did: "r" raised, "c" continued
          out         \* [k |-> "-" | "ok" | "escaped" | "wrong", pos]
vars == <<phase, prog, open, pc, x, sched, out>>

O(k, p) == [k |-> k, pos |-> p]
Simple == {"N", "I", "B", "U"}
Count(t) == Cardinality({i \in 1..Len(prog) : prog[i] = t})
Top == open[Len(open)]
Init == phase = "gen" /\ prog = <<>> /\ open = <<>> /\ pc = 1 /\ x = "I" /\ sched = <<>> /\ out = O("-", 0)

\* room must remain to close everything that is open: a "T" needs >= 1 body token + X + E, an open "X" needs E
Need == LET f[i \in 0..Len(open)] == IF i = 0 THEN 0 ELSE f[i - 1] + (IF open[i].k = "T" THEN 2 ELSE 1) IN f[Len(open)]
BodyEmpty == open # <<>> /\ Top.k = "T" /\ Top.pos = Len(prog)

GenSimple == /\ phase = "gen"
             /\ \E t \in Simple :
                  /\ Len(prog) + 1 + Need <= MaxLen
                  /\ t = "U" => Count("U") < MaxUse
                  /\ t = "B" => Count("B") < MaxBoom
                  /\ prog' = Append(prog, t)
             /\ UNCHANGED <<open, pc, x, sched, out>> /\ phase' = phase
GenTry == /\ phase = "gen" /\ Len(open) < MaxDepth /\ Count("T") < MaxTry
          /\ Len(prog) + 4 + Need <= MaxLen
          /\ prog' = Append(prog, "T") /\ open' = Append(open, [k |-> "T", pos |-> Len(prog) + 1])
          /\ UNCHANGED <<phase, pc, x, sched, out>>
GenExc == /\ phase = "gen" /\ open # <<>> /\ Top.k = "T" /\ ~BodyEmpty
          /\ \E c \in {"XV", "XK"} : prog' = Append(prog, c)
          /\ open' = [open EXCEPT ![Len(open)] = [k |-> "X", pos |-> Len(prog) + 1]]
          /\ UNCHANGED <<phase, pc, x, sched, out>>
GenEnd == /\ phase = "gen" /\ open # <<>> /\ Top.k = "X"
          /\ prog' = Append(prog, "E") /\ open' = SubSeq(open, 1, Len(open) - 1)
          /\ UNCHANGED <<phase, pc, x, sched, out>>
GenFinish == /\ phase = "gen" /\ open = <<>> /\ Count("U") > 0 /\ Count("B") > 0 /\ Count("T") > 0
             /\ phase' = "run" /\ UNCHANGED <<prog, open, pc, x, sched, out>>

\* ------------------------------------------------------------------ structure of a finished program
N == Len(prog)
\* matching: for a "T" at t, its handler token and its "E"
Depth[i \in 0..N] == IF i = 0 THEN 0
                     ELSE IF prog[i] = "T" THEN Depth[i - 1] + 1
                     ELSE IF prog[i] = "E" THEN Depth[i - 1] - 1 ELSE Depth[i - 1]
IsX(i) == prog[i] \in {"XV", "XK"}
HandlerOf(t) == CHOOSE e \in (t + 1)..N : IsX(e) /\ Depth[e] = Depth[t] /\ \A j \in (t + 1)..(e - 1) : ~(IsX(j) /\ Depth[j] = Depth[t])
EndOf(t) == CHOOSE e \in (t + 1)..N : prog[e] = "E" /\ Depth[e] = Depth[t] - 1 /\ \A j \in (t + 1)..(e - 1) : ~(prog[j] = "E" /\ Depth[j] = Depth[t] - 1)
Trys == {t \in 1..N : prog[t] = "T"}
InBody(p, t) == t < p /\ p < HandlerOf(t)
\* the try statements whose BODY contains p, innermost first = largest t
Catchers(p) == {t \in Trys : InBody(p, t) /\ prog[HandlerOf(t)] = "XV"}      \* boom() raises ValueError
\* where a ValueError raised at p continues: the handler of the innermost enclosing body with a matching handler
RaiseTarget(p) == IF Catchers(p) = {} THEN 0
                  ELSE LET t == CHOOSE u \in Catchers(p) : \A w \in Catchers(p) : w <= u IN HandlerOf(t) + 1
\* the try statement whose handler token is at e
TryOfHandler(e) == CHOOSE t \in Trys : HandlerOf(t) = e

Finish(o) == /\ out' = o /\ phase' = "fin" /\ UNCHANGED <<prog, open, pc, x, sched>>
Step(npc, nx) == /\ pc' = npc /\ x' = nx /\ UNCHANGED <<phase, prog, open, sched, out>>
RunEndOfBody == phase = "run" /\ pc = N + 1 /\ Finish(O("ok", 0))
RunAsg == /\ phase = "run" /\ pc <= N /\ prog[pc] \in {"N", "I"} /\ Step(pc + 1, prog[pc])
RunUse == /\ phase = "run" /\ pc <= N /\ prog[pc] = "U"
          /\ IF x = "N" THEN Finish(O("wrong", pc)) ELSE Step(pc + 1, x)
RunBoomContinue == /\ phase = "run" /\ pc <= N /\ prog[pc] = "B"
                   /\ pc' = pc + 1 /\ sched' = Append(sched, "c") /\ UNCHANGED <<phase, prog, open, x, out>>
RunBoomRaise == /\ phase = "run" /\ pc <= N /\ prog[pc] = "B"
                /\ IF RaiseTarget(pc) = 0
                   THEN /\ out' = O("escaped", 0) /\ phase' = "fin" /\ sched' = Append(sched, "r") /\ UNCHANGED <<prog, open, pc, x>>
                   ELSE /\ pc' = RaiseTarget(pc) /\ sched' = Append(sched, "r") /\ UNCHANGED <<phase, prog, open, x, out>>
RunTry == /\ phase = "run" /\ pc <= N /\ prog[pc] = "T" /\ Step(pc + 1, x)
\* the body completed normally: skip the handler
RunSkipHandler == /\ phase = "run" /\ pc <= N /\ IsX(pc) /\ Step(EndOf(TryOfHandler(pc)) + 1, x)
RunEnd == /\ phase = "run" /\ pc <= N /\ prog[pc] = "E" /\ Step(pc + 1, x)

Gen == GenSimple \/ GenTry \/ GenExc \/ GenEnd \/ GenFinish
Run == RunEndOfBody \/ RunAsg \/ RunUse \/ RunBoomContinue \/ RunBoomRaise \/ RunTry \/ RunSkipHandler \/ RunEnd
Next == Gen \/ Run
Spec == Init /\ [][Next]_vars

\* ------------------------------------------------------------------ properties of the specification itself
TypeOK == /\ phase \in {"gen", "run", "fin"} /\ x \in {"I", "N"} /\ Len(prog) <= MaxLen
          /\ (phase # "gen" => open = <<>>)
\* a finished program is well nested, and control never sits inside a structure it could not have entered
WellNested == phase # "gen" => /\ Depth[N] = 0 /\ \A i \in 1..N : Depth[i] >= 0
                               /\ \A t \in Trys : HandlerOf(t) < EndOf(t) /\ HandlerOf(t) > t + 1
\* an exception never enters a handler of a try statement whose body did not contain the raise point
HandlerSound == [][(phase = "run" /\ pc <= N /\ prog[pc] = "B" /\ pc' # pc + 1 /\ phase' = "run")
                      => (IsX(pc' - 1) /\ InBody(pc, TryOfHandler(pc' - 1)) /\ prog[pc' - 1] = "XV")]_vars
\* the mutant of this specification that corresponds to "only the innermost try sees the state": used by the driver
\* to show that the emitted space contains programs that distinguish innermost-only from every-enclosing-try.
InnermostCatchesOrEscapes ==
    [][(phase = "run" /\ pc <= N /\ prog[pc] = "B" /\ pc' # pc + 1 /\ phase' = "run")
          => LET inner == CHOOSE u \in {t \in Trys : InBody(pc, t)} : \A w \in {t \in Trys : InBody(pc, t)} : w <= u
             IN pc' = HandlerOf(inner) + 1]_vars

Emit == phase = "fin" => PrintT(<<"RUN", ToJson([p |-> prog, s |-> sched, o |-> out])>>)
=============================================================================
