------------------------------- MODULE Override -------------------------------
(* C01, third fragment: override compatibility of one member across class hierarchies (depth 3+, multiple inheritance),
   used through base-typed references.

     class K1:            limit: A = A()                       (attr)
     class K2(K1):        pass                                  (none)
     class K3(K2, ...):   @property def limit(self) -> B: ...   (ro)   |  + @limit.setter (rw)
     def r_b(o: Kb) -> Tb: return o.limit          def w_b(o: Kb) -> None: o.limit = Tb()

   A hierarchy is built class by class (AddClass: ordered base list over earlier classes whose C3 linearisation exists,
   and a definition of the member: none | attr | ro | rw with a value type A or B, B a subclass of A).
   Static rule (mypy): a class definition is accepted iff
     - its own definition is compatible with the definition in EVERY class of mro[1:] that defines the member
       (checker.check_method_override / check_method_or_accessor_override_for_base, check_compatibility_all_supers,
       check_incompatible_property_override -- all iterate over the whole MRO, not over the direct bases): the value type
       must be a subtype of the base's value type, and a read-only property must not override a writable member;
     - when it defines nothing itself and inherits the member from several direct bases, the definition that wins (first in
       the MRO) is compatible with the ones it shadows (checker.check_multiple_inheritance / check_compatibility).
   `w_b` is accepted iff the member resolved for Kb is writable.
   Run time (CPython): the member of an instance of Kc is the definition of the first class of mro(Kc) that has one;
   reading returns a value of that definition's type; writing raises AttributeError iff it is a read-only property.
   Property (TLC): if every class of mro(Kc) is accepted then for every Kb in mro(Kc) that has the member, a read through
   a Kb-typed reference yields a member of Tb and an accepted write through it does not raise.
*)
EXTENDS Naturals, Sequences, FiniteSets, TLC, Json

CONSTANTS MaxClasses, MaxBases, Defs, DoEmit, Mutant
  \* Defs: definitions that may be chosen: subset of {"none"} \cup ({"attr","ro","rw"} \X {"A","B"}) written as strings
  \* Mutant: "none" | "direct" (own definition compared with the direct bases only) | "nomi" (no multiple-inheritance check)

VARIABLES bases, defs
vars == <<bases, defs>>

Kind(d) == IF d \in {"attrA", "attrB"} THEN "attr" ELSE IF d \in {"roA", "roB"} THEN "ro" ELSE IF d \in {"rwA", "rwB"} THEN "rw" ELSE "none"
Ty(d) == IF d \in {"attrB", "roB", "rwB"} THEN "B" ELSE "A"
Writable(d) == Kind(d) \in {"attr", "rw"}
SubTy(s, t) == s = t \/ (s = "B" /\ t = "A")

\* ---- C3 linearisation (as in spec/C3.tla: CPython mro_implementation / mypy.mro.linearize_hierarchy)
Fail == <<0>>
InTail(x, s) == \E i \in 2..Len(s) : s[i] = x
RECURSIVE Merge(_)
Merge(seqs) ==
  LET ne == SelectSeq(seqs, LAMBDA s : Len(s) > 0) IN
  IF Len(ne) = 0 THEN <<>>
  ELSE LET cands == {i \in 1..Len(ne) : \A j \in 1..Len(ne) : ~InTail(ne[i][1], ne[j])} IN
       IF cands = {} THEN Fail
       ELSE LET i == CHOOSE i \in cands : \A k \in cands : i <= k
                h == ne[i][1]
                rest == [j \in 1..Len(ne) |-> IF ne[j][1] = h THEN Tail(ne[j]) ELSE ne[j]]
                m == Merge(rest)
            IN IF m = Fail THEN Fail ELSE <<h>> \o m
RECURSIVE Mro(_, _)
Mro(b, c) ==
  LET bs == b[c]
      lins == [i \in 1..Len(bs) |-> Mro(b, bs[i])]
  IN IF \E i \in 1..Len(bs) : lins[i] = Fail THEN Fail
     ELSE LET m == Merge(lins \o <<bs>>) IN IF m = Fail THEN Fail ELSE <<c>> \o m

N == Len(bases)
OrderedSubsets(S, n) == UNION {{s \in [1..k -> S] : \A i, j \in 1..k : i # j => s[i] # s[j]} : k \in 0..n}

Init == bases = <<>> /\ defs = <<>>
AddClass == /\ N < MaxClasses
            /\ \E b \in OrderedSubsets(1..N, MaxBases), d \in Defs :
                 /\ Mro(Append(bases, b), N + 1) # Fail
                 /\ bases' = Append(bases, b) /\ defs' = Append(defs, d)
Next == AddClass
Spec == Init /\ [][Next]_vars

\* ---- run-time resolution
M(c) == Mro(bases, c)
Resolved(c) == LET m == M(c)  S == {i \in 1..Len(m) : defs[m[i]] # "none"} IN
               IF S = {} THEN "none" ELSE defs[m[CHOOSE i \in S : \A j \in S : i <= j]]

\* ---- static rule
\* value type covariant (also for a mutable attribute: mypy's documented default, error code mutable-override is off);
\* a read-only property must not override a writable member; a SETTABLE property overriding a writable member must
\* accept the base's values in its setter ("Signature incompatible with supertype"), i.e. the types are equal
Compatible(o, b) == /\ SubTy(Ty(o), Ty(b)) /\ (Writable(b) => Writable(o))
                    /\ (Kind(o) = "rw" /\ Writable(b) => Ty(o) = Ty(b))
MICompatible(f, s) == IF Writable(s) THEN Ty(f) = Ty(s) /\ Kind(f) # "ro" ELSE SubTy(Ty(f), Ty(s))
Accept(c) ==
  LET m == M(c) IN
  IF defs[c] # "none"
  THEN \* an ATTRIBUTE is compared along mro[1:] only up to the last direct base, if that base defines the member itself
       \* (check_compatibility_all_supers: `if base is last_immediate_base: break`); properties along the whole MRO
       LET lastb == IF Len(bases[c]) = 0 THEN 0 ELSE bases[c][Len(bases[c])]
           stop == IF Kind(defs[c]) = "attr" /\ lastb # 0 /\ defs[lastb] # "none"
                   THEN CHOOSE n \in 1..Len(m) : m[n] = lastb ELSE Len(m)
       IN \A i \in 2..stop :
         (defs[m[i]] # "none" /\ (Mutant = "direct" => \E k \in 1..Len(bases[c]) : bases[c][k] = m[i]))
           => Compatible(defs[c], defs[m[i]])
  ELSE \* check_multiple_inheritance (only with >= 2 direct bases, only for a member the class does not define): the
       \* first class of mro[1:] that DEFINES the member is compared with every later one that defines it and is not
       \* one of its own ancestors (check_compatibility: equal types if the shadowed one is writable, else subtype;
       \* a read-only property must not shadow a writable member)
       Mutant = "nomi" \/ Len(bases[c]) < 2 \/
       LET D == {i \in 2..Len(m) : defs[m[i]] # "none"} IN
       D = {} \/
       LET f == CHOOSE i \in D : \A j \in D : i <= j IN
       \A j \in D : (j > f /\ ~(\E n \in 1..Len(M(m[f])) : M(m[f])[n] = m[j])) => MICompatible(defs[m[f]], defs[m[j]])
WriteAccepted(c) == Writable(Resolved(c))

\* ---- property
Sound == \A c \in 1..N :
           (\A i \in 1..Len(M(c)) : Accept(M(c)[i])) =>
             \A i \in 1..Len(M(c)) :
               LET b == M(c)[i] IN
               Resolved(b) # "none" =>
                 /\ SubTy(Ty(Resolved(c)), Ty(Resolved(b)))
                 /\ (Writable(Resolved(b)) => Writable(Resolved(c)))

Emit == (DoEmit /\ N = MaxClasses) =>
          PrintT(<<"OVR", ToJson(<<bases, defs, [c \in 1..N |-> M(c)], [c \in 1..N |-> Accept(c)],
                                   [c \in 1..N |-> Resolved(c)]>>)>>)
=============================================================================
