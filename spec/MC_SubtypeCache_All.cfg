SPECIFICATION Spec
CONSTANTS
  KeyOf <- BuildSubtypeKind
  Ask = "all"
  MaxQ = 2
  MaxR = 1
VIEW view
INVARIANT AnswerIsTruth
INVARIANT CacheSound
INVARIANT Disjoint
INVARIANT OnlyRecordable
