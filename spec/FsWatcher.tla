---------------------------- MODULE FsWatcher ----------------------------
(* Exact transcription of mypy/fswatcher.py FileSystemWatcher.

   File system: each path is absent or has [mtime, content]; size and hash are functions of the
   content (Size may collide, Hash is injective).  Watcher state: `watched` (_paths) and
   `snap` (_file_data: path -> "unset" | None | FileData).
   Watcher actions: AddWatched, RemoveWatched, FindChanged (= _find_changed over all watched paths),
   UpdateChanged(remove, update).  Environment: Write (new content; mtime = clock, or unchanged
   when CoarseClock lets two writes share a tick), Touch, Delete.

   Ghost `base[p]`: the content the client has been told about (content at the last report, absent
   initially / after removal).  Property (Exact): a find_changed reports exactly the watched paths whose
   content (or existence) differs from `base`.  With CoarseClock a same-size rewrite inside one tick is
   missed -- the documented reliance on the clock (assumption A-clock), shown by Mut_FsWatcher_Coarse.cfg.
*)
EXTENDS Naturals, FiniteSets, Sequences, TLC, Json
CONSTANTS Paths, Contents, CoarseClock, MaxEnv, MaxOps
Absent == [k |-> "absent", mtime |-> 0, c |-> ""]
Unset == [k |-> "unset", mtime |-> 0, size |-> 0, hash |-> ""]
NoneD == [k |-> "none", mtime |-> 0, size |-> 0, hash |-> ""]
Size(c) == IF c = "y" THEN 2 ELSE 1           \* "x1" and "x2" have the same size
VARIABLES fs, watched, snap, base, last, clock, nenv, nops, justFound, h
vars == <<fs, watched, snap, base, last, clock, nenv, nops, justFound, h>>
mcview == <<fs, watched, snap, base, last, clock, nenv, nops, justFound>>
File(m, c) == [k |-> "file", mtime |-> m, c |-> c]
Data(f) == [k |-> "data", mtime |-> f.mtime, size |-> Size(f.c), hash |-> f.c]
Init == /\ fs = [p \in Paths |-> Absent] /\ watched = {} /\ snap = [p \in Paths |-> Unset]
        /\ base = [p \in Paths |-> ""] /\ last = {} /\ clock = 1 /\ nenv = 0 /\ nops = 0 /\ justFound = FALSE /\ h = <<>>
\* ---- environment
Tick == IF CoarseClock THEN {clock, clock + 1} ELSE {clock + 1}
Write == /\ nenv < MaxEnv /\ \E p \in Paths, c \in Contents, t \in Tick :
              /\ (fs[p].k = "absent" \/ fs[p].c # c)
              /\ fs' = [fs EXCEPT ![p] = File(t, c)] /\ clock' = t
              /\ h' = Append(h, [ev |-> "write", p |-> p, c |-> c, t |-> t, changed |-> {}])
         /\ nenv' = nenv + 1 /\ justFound' = FALSE /\ UNCHANGED <<watched, snap, base, last, nops>>
Touch == /\ nenv < MaxEnv /\ \E p \in Paths : /\ fs[p].k = "file"
              /\ fs' = [fs EXCEPT ![p] = File(clock + 1, fs[p].c)]
              /\ h' = Append(h, [ev |-> "touch", p |-> p, c |-> fs[p].c, t |-> clock + 1, changed |-> {}])
         /\ clock' = clock + 1 /\ nenv' = nenv + 1 /\ justFound' = FALSE /\ UNCHANGED <<watched, snap, base, last, nops>>
Delete == /\ nenv < MaxEnv /\ \E p \in Paths : /\ fs[p].k = "file" /\ fs' = [fs EXCEPT ![p] = Absent]
              /\ h' = Append(h, [ev |-> "delete", p |-> p, c |-> "", t |-> 0, changed |-> {}])
          /\ nenv' = nenv + 1 /\ justFound' = FALSE /\ UNCHANGED <<watched, snap, base, last, clock, nops>>
\* ---- watcher
\* add_watched_paths: a path not yet in _file_data gets None ("will be reported if it exists")
Added(sn, ps) == [p \in Paths |-> IF p \in ps /\ p \notin watched THEN NoneD ELSE sn[p]]
\* _find_changed over ps, starting from snapshot sn: <<changed set, new snapshot>>
Changed1(p, sn) ==
   LET old == sn[p]  f == fs[p] IN
   IF f.k = "absent" THEN old.k = "data"
   ELSE IF old.k # "data" THEN TRUE
   ELSE (Size(f.c) # old.size \/ f.mtime # old.mtime) /\ (Size(f.c) # old.size \/ f.c # old.hash)
Snap1(p, sn) ==
   LET old == sn[p]  f == fs[p] IN
   IF f.k = "absent" THEN (IF old.k = "data" THEN NoneD ELSE old)
   ELSE IF old.k # "data" THEN Data(f)
   ELSE IF Size(f.c) # old.size \/ f.mtime # old.mtime THEN Data(f) ELSE old
FindChanged == /\ nops < MaxOps /\ watched # {}
               /\ LET ch == {p \in watched : Changed1(p, snap)} IN
                    /\ last' = ch
                    /\ snap' = [p \in Paths |-> IF p \in watched THEN Snap1(p, snap) ELSE snap[p]]
                    /\ base' = [p \in Paths |-> IF p \in ch THEN (IF fs[p].k = "file" THEN fs[p].c ELSE "") ELSE base[p]]
                    /\ h' = Append(h, [ev |-> "find_changed", p |-> "", c |-> "", t |-> 0, changed |-> ch])
               /\ nops' = nops + 1 /\ justFound' = TRUE /\ UNCHANGED <<fs, watched, clock, nenv>>
AddWatched == /\ nops < MaxOps /\ \E ps \in (SUBSET Paths) \ {{}} :
                   /\ ~(ps \subseteq watched)
                   /\ snap' = Added(snap, ps) /\ watched' = watched \cup ps
                   /\ h' = Append(h, [ev |-> "add", p |-> "", c |-> "", t |-> 0, changed |-> ps])
              /\ nops' = nops + 1 /\ justFound' = FALSE /\ UNCHANGED <<fs, base, last, clock, nenv>>
RemoveWatched == /\ nops < MaxOps /\ \E ps \in (SUBSET watched) \ {{}} :
                   /\ snap' = [p \in Paths |-> IF p \in ps THEN Unset ELSE snap[p]] /\ watched' = watched \ ps
                   /\ base' = [p \in Paths |-> IF p \in ps THEN "" ELSE base[p]]
                   /\ h' = Append(h, [ev |-> "remove", p |-> "", c |-> "", t |-> 0, changed |-> ps])
                 /\ nops' = nops + 1 /\ justFound' = FALSE /\ UNCHANGED <<fs, last, clock, nenv>>
Next == Write \/ Touch \/ Delete \/ FindChanged \/ AddWatched \/ RemoveWatched
Spec == Init /\ [][Next]_vars
\* ---- properties
Cur(p) == IF fs[p].k = "file" THEN fs[p].c ELSE ""
\* right after a find_changed: everything watched has been brought up to date, nothing else was reported
Exact == justFound =>
            \A p \in watched : base[p] = Cur(p)
SnapCoherent == \A p \in Paths : (p \in watched) = (snap[p].k # "unset")
Complete == nops = MaxOps /\ nenv = MaxEnv
Emit == Complete => PrintT(<<"HIST", ToJson(h)>>)
==========================================================================
