SPECIFICATION Spec
CONSTANTS
 N = 4
 FirstLevelOnly = FALSE
 Reexports = FALSE
INVARIANT FreshIsSound
INVARIANT HashCoversReach
