SPECIFICATION GenSpec
CONSTANTS
  Bases <- BasesDef
  UserClasses <- UserClassesDef
  Promotions <- PromotionsDef
  LitBase <- LitBaseDef
  OtherAtoms <- OtherAtomsDef
  UOps <- UOpsDef
  UArgs <- UArgsT
  TypeArgs <- TypeArgsT
  TupArgs <- TupArgsT
  UnionArgs <- UnionArgsT
  FnKinds <- FnKindsDef
  FnArgs <- FnArgsT
  FnRets <- FnRetsT
  VtItems <- VtItemsT
  Extras <- ExtrasT
  SimpAtoms <- SimpAtomsT
INVARIANT Emit
INVARIANT DeclOut
