SPECIFICATION Spec
CONSTANT FSel <- SampleUnchecked
INVARIANT NoLeak
INVARIANT NoDoubleRelease
INVARIANT NoUndefRead
INVARIANT NoUseAfterRelease
INVARIANT Classified
