SPECIFICATION Spec
CONSTANTS
  Toks <- ToksL3
  BinOps <- BinL3q
  UnOps <- AllUn
  MaxDepth = 3
  FloorDiv = TRUE
INVARIANT DivModLaw
INVARIANT BitLaw
INVARIANT ShiftLaw
INVARIANT RaisePropagates
