SPECIFICATION Spec
CONSTANTS
  Codes <- McCodes
  NameOf <- McNameOf
  SubOf <- McSubOf
  DefaultOn <- McDefaultOn
  Renamed <- McRenamed
  HideLink <- McHideLink
  Slots <- SlotsA
  IgnChoices <- IgnA
  SkipChoices <- SkipNone
  CodeCfgs <- CodesNone
  FlagCfgs <- FlagsA
  Alphabet <- AlphaA
  MaxReports = 2
  DisabledLeavesUnused = TRUE
  SubCodesMatch = TRUE
  BlockersBypass = TRUE
  AssumeNoCrossCodeDups = FALSE
  NotesInheritOrigin = TRUE
INVARIANT Exactness
INVARIANT DisableExact
INVARIANT OutputExactness
INVARIANT AttachedExact
INVARIANT UnusedExact
INVARIANT ExitCode
