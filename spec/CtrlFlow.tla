------------------------------ MODULE CtrlFlow ------------------------------
(* Operational semantics of Python's structured control flow, written to be bound to CPython
   (the oracle of C05) and to mypyc-compiled code (the implementation under test:
   mypyc/irbuild/statement.py transform_try_stmt / transform_try_except / transform_try_finally_stmt,
   nonlocalcontrol.py TryFinallyNonlocalControl / ExceptNonlocalControl / FinallyNonlocalControl,
   transform/exceptions.py insert_exception_handling).

   A program is a function body  def f(x: int) -> int  given as a PRE-ORDER TOKEN SEQUENCE:
       print                         print(<index of the token>)
       ret      [g]                  return 100 + <index>
       raise    e [g]                raise ValueError(<index>) / KeyError(<index>)
       craise   e                    boom_<e>(<index>)   -- a call of a function that raises
       reraise  [g]                  raise
       break [g]   cont [g]          break / continue
       try  S+ (except P S+)* [else S+] [finally S+] end
       loop kind n  S+ [lelse S+] end        for i in range(n) / the equivalent while, [else]
       def  S+ end                   def g() -> int: S+ ; return 0      followed by   print(g())
   g = 1 guards a jump with `if x:` (x is the argument of f, a free variable inside a nested def).
   Patterns: V = ValueError, L = LookupError (catches KeyError), X = Exception.

   Generation (mode "gen") appends one token per action, every prefix can be completed within
   MaxTok tokens (Fits).  Finish fixes the input x.  Execution (mode "run") is the machine the
   reference manual describes (8.4 "The try statement", 7.9-7.10 break/continue, 7.8 raise):
       stk      stack of entered blocks: try (phase body/handler/else/finally), loop, func
       comp     pending completion: normal | return v | raise (e,v) | break | continue
       handled  the stack of exceptions being handled (what a bare `raise` re-raises; per thread,
                not per frame: a nested function called from a handler re-raises the caller's)
       out      the event trace (the numbers printed), res the final completion of f
   One action per kind of step; an abrupt completion is propagated one block per step (the Unwind actions).
*)
EXTENDS Naturals, Sequences, FiniteSets, TLC, Json

CONSTANTS
  MaxTok,             \* max number of tokens of a program
  MaxDepth,           \* max nesting depth of blocks
  MaxHandlers,        \* max except clauses per try
  MaxSimple,          \* max number of simple statements in a row
  Excs,               \* what raise / craise may raise: subset of {"V", "K"}
  Pats,               \* handler patterns: subset of {"V", "L", "X"}
  Guards,             \* subset of {0, 1}
  UseCraise, UseReraise, UseLoopElse, UseDef,
  LoopKinds,          \* subset of {"for", "while"}  ({} = no loops)
  LoopN,              \* every loop iterates LoopN times unless left
  FinJumps,           \* jumps lexically inside a finally section that leave it: "none" | "guarded" | "any"
  JumpThroughFinally, \* TRUE: break / continue may leave a try statement that has a finally clause
  Stutter,            \* TRUE: a halted machine stutters (exhaustive runs with TLC's deadlock check on)
  FinallyOverrides    \* TRUE: Python's rule (an abrupt completion of a finally section discards the
                      \* saved one); FALSE: specification-level mutant (an in-flight exception wins)

VARIABLES prog, open, mode, x, dpt, pc, stk, comp, handled, out, res, nTry, nFin, steps
genvars == <<prog, open>>
runvars == <<x, dpt, pc, stk, comp, handled, out, res, nTry, nFin, steps>>
vars == <<prog, open, mode, x, dpt, pc, stk, comp, handled, out, res, nTry, nFin, steps>>

Tok(op, a, n, g) == [op |-> op, a |-> a, n |-> n, g |-> g]
Openers == {"try", "loop", "def"}
SecOpeners == Openers \cup {"except", "else", "finally", "lelse"}
StaticJumps == {"ret", "raise", "reraise", "break", "cont"}
Last == Len(prog)
Normal == [k |-> "normal", e |-> "", v |-> 0]
Pop(s) == SubSeq(s, 1, Len(s) - 1)
Top(s) == s[Len(s)]

\* ------------------------------------------------------------------ generation
OEntry(t, sec, at) == [t |-> t, sec |-> sec, at |-> at, nh |-> 0, pats |-> {}, esc |-> FALSE]
NeedE(o) == IF o.t = "try" /\ o.sec = "body" THEN 3 ELSE 1
RECURSIVE NeedAll(_)
NeedAll(os) == IF os = <<>> THEN 0 ELSE NeedE(Head(os)) + NeedAll(Tail(os))
\* the prefix p with open blocks os can still be completed within MaxTok tokens
Fits(p, os) == Len(p) + NeedAll(os) + (IF p[Len(p)].op \in SecOpeners THEN 1 ELSE 0) <= MaxTok

EmptySec == Last = 0 \/ prog[Last].op \in SecOpeners
Dead == Last > 0 /\ prog[Last].op \in StaticJumps /\ prog[Last].g = 0
MaxOf(S) == IF S = {} THEN 0 ELSE CHOOSE i \in S : \A j \in S : j <= i
TopDef == MaxOf({i \in DOMAIN open : open[i].t = "def"})
InnerLoop == MaxOf({i \in DOMAIN open : i > TopDef /\ open[i].t = "loop" /\ open[i].sec = "body"})
FinAbove(i) == \E j \in DOMAIN open : j > i /\ open[j].t = "try" /\ open[j].sec = "finally"
JumpOK(g, infin) == ~infin \/ FinJumps = "any" \/ (FinJumps = "guarded" /\ g = 1)

Simple == {"print", "ret", "raise", "craise", "reraise", "break", "cont"}
RECURSIVE RunLen(_)
RunLen(i) == IF i = 0 \/ prog[i].op \notin Simple THEN 0 ELSE 1 + RunLen(i - 1)
AddStmt(t, os) == /\ mode = "gen" /\ ~Dead
                  /\ (t.op \in Simple => RunLen(Last) < MaxSimple)
                  /\ prog' = Append(prog, t) /\ open' = os
                  /\ Fits(prog', open')
                  /\ UNCHANGED <<mode, x, dpt, pc, stk, comp, handled, out, res, nTry, nFin, steps>>

\* redundancy pruning (no semantic content): no two prints in a row, no guarded jump right after a
\* guarded jump (both are skipped or the second is dead), only a print directly after a raising call
LastOp == IF Last = 0 THEN "" ELSE prog[Last].op
AfterGuarded == Last > 0 /\ prog[Last].op \in StaticJumps /\ prog[Last].g = 1
GuardOK(g) == LastOp # "craise" /\ (g = 1 => ~AfterGuarded)
AddPrint == LastOp # "print" /\ AddStmt(Tok("print", "", 0, 0), open)
AddReturn == \E g \in Guards : GuardOK(g) /\ JumpOK(g, FinAbove(TopDef)) /\ AddStmt(Tok("ret", "", 0, g), open)
AddRaise == \E e \in Excs, g \in Guards : GuardOK(g) /\ JumpOK(g, FinAbove(TopDef)) /\ AddStmt(Tok("raise", e, 0, g), open)
AddCraise == UseCraise /\ LastOp # "craise" /\ \E e \in Excs : AddStmt(Tok("craise", e, 0, 0), open)
AddReraise == UseReraise /\ \E g \in Guards : GuardOK(g) /\ JumpOK(g, FinAbove(TopDef)) /\ AddStmt(Tok("reraise", "", 0, g), open)
AddLoopJump ==
  /\ InnerLoop # 0
  /\ \E op \in {"break", "cont"}, g \in Guards :
       /\ GuardOK(g)
       /\ JumpOK(g, FinAbove(InnerLoop))
       /\ AddStmt(Tok(op, "", 0, g),
                  [i \in DOMAIN open |-> IF i > InnerLoop /\ open[i].t = "try" THEN [open[i] EXCEPT !.esc = TRUE] ELSE open[i]])

CanOpen == Len(open) < MaxDepth /\ LastOp # "craise"
OpenTry == CanOpen /\ AddStmt(Tok("try", "", 0, 0), Append(open, OEntry("try", "body", Last + 1)))
OpenLoop == CanOpen /\ \E k \in LoopKinds : AddStmt(Tok("loop", k, LoopN, 0), Append(open, OEntry("loop", "body", Last + 1)))
OpenDef == UseDef /\ CanOpen /\ AddStmt(Tok("def", "", 0, 0), Append(open, OEntry("def", "body", Last + 1)))

\* a clause keyword or `end`: the current section must not be empty; code after a jump is not generated,
\* so these are the only tokens that may follow an unguarded jump
Delim(t, os) == /\ mode = "gen" /\ open # <<>> /\ ~EmptySec
                /\ prog' = Append(prog, t) /\ open' = os
                /\ Fits(prog', open')
                /\ UNCHANGED <<mode, x, dpt, pc, stk, comp, handled, out, res, nTry, nFin, steps>>
SetTop(o) == [open EXCEPT ![Len(open)] = o]
AddExcept == /\ open # <<>> /\ Top(open).t = "try" /\ Top(open).sec \in {"body", "except"}
             /\ Top(open).nh < MaxHandlers /\ "X" \notin Top(open).pats
             /\ \E p \in Pats \ Top(open).pats :
                  Delim(Tok("except", p, 0, 0),
                        SetTop([Top(open) EXCEPT !.sec = "except", !.nh = @ + 1, !.pats = @ \cup {p}]))
AddElse == /\ open # <<>> /\ Top(open).t = "try" /\ Top(open).sec = "except"
           /\ Delim(Tok("else", "", 0, 0), SetTop([Top(open) EXCEPT !.sec = "else"]))
AddFinally == /\ open # <<>> /\ Top(open).t = "try" /\ Top(open).sec \in {"body", "except", "else"}
              /\ (JumpThroughFinally \/ ~Top(open).esc)
              /\ Delim(Tok("finally", "", 0, 0), SetTop([Top(open) EXCEPT !.sec = "finally"]))
AddLoopElse == /\ UseLoopElse /\ open # <<>> /\ Top(open).t = "loop" /\ Top(open).sec = "body"
               /\ Delim(Tok("lelse", "", 0, 0), SetTop([Top(open) EXCEPT !.sec = "lelse"]))
Close == /\ open # <<>>
         /\ (Top(open).t = "try" => Top(open).sec # "body")
         /\ Delim(Tok("end", "", 0, 0), Pop(open))

HasGuard == \E i \in DOMAIN prog : prog[i].g = 1
DepthTable == LET RECURSIVE D(_)
                  D(i) == IF i = 1 THEN 0
                          ELSE D(i - 1) + (IF prog[i - 1].op \in Openers THEN 1 ELSE 0)
                                        - (IF prog[i - 1].op = "end" THEN 1 ELSE 0)
              IN [i \in DOMAIN prog |-> D(i)]
Finish == /\ mode = "gen" /\ open = <<>> /\ Last >= 1
          /\ mode' = "run"
          /\ x' \in (IF HasGuard THEN {0, 1} ELSE {0})
          /\ dpt' = DepthTable
          /\ pc' = 1
          /\ UNCHANGED <<prog, open, stk, comp, handled, out, res, nTry, nFin, steps>>

\* ------------------------------------------------------------------ program structure (run time)
EndOf(i) == CHOOSE j \in (i + 1)..Last :
              /\ prog[j].op = "end" /\ dpt[j] = dpt[i] + 1
              /\ \A k \in (i + 1)..(j - 1) : ~(prog[k].op = "end" /\ dpt[k] = dpt[i] + 1)
Delims(i) == {j \in (i + 1)..(EndOf(i) - 1) : dpt[j] = dpt[i] + 1 /\ prog[j].op \in {"except", "else", "finally", "lelse"}}
ClauseOf(i, op) == MaxOf({j \in Delims(i) : prog[j].op = op})     \* 0 = no such clause
ElseOf(i) == ClauseOf(i, "else")
FinOf(i) == ClauseOf(i, "finally")
LElseOf(i) == ClauseOf(i, "lelse")
OwnerOf(j) == CHOOSE i \in 1..(j - 1) : prog[i].op \in Openers /\ dpt[i] = dpt[j] - 1 /\ EndOf(i) >= j
Matches(p, e) == p = "X" \/ (p = "V" /\ e = "V") \/ (p = "L" /\ e = "K")
\* the first except clause of try i that catches e (0 = none)
HandlerFor(i, e) == LET hs == {j \in Delims(i) : prog[j].op = "except" /\ Matches(prog[j].a, e)}
                    IN IF hs = {} THEN 0 ELSE CHOOSE j \in hs : \A k \in hs : j <= k

SEntry(t, at, ph) == [t |-> t, at |-> at, ph |-> ph, it |-> 0, saved |-> Normal]
Exc(c) == [e |-> c.e, v |-> c.v]
Running == mode = "run" /\ comp = Normal
Unwinding == mode = "run" /\ comp # Normal
Cur == prog[pc]
GuardTrue == Cur.g = 0 \/ x = 1
Tick == steps' = steps + 1

\* ------------------------------------------------------------------ execution: normal flow
ExecPrint == /\ Running /\ pc <= Last /\ Cur.op = "print"
             /\ out' = Append(out, pc) /\ pc' = pc + 1 /\ Tick
             /\ UNCHANGED <<prog, open, mode, x, dpt, stk, comp, handled, res, nTry, nFin>>

SkipGuarded == /\ Running /\ pc <= Last /\ Cur.op \in StaticJumps /\ ~GuardTrue
               /\ pc' = pc + 1 /\ Tick
               /\ UNCHANGED <<prog, open, mode, x, dpt, stk, comp, handled, out, res, nTry, nFin>>

Jump(c) == /\ comp' = c /\ Tick
           /\ UNCHANGED <<prog, open, mode, x, dpt, pc, stk, handled, out, res, nTry, nFin>>
ExecReturn == Running /\ pc <= Last /\ Cur.op = "ret" /\ GuardTrue /\ Jump([k |-> "return", e |-> "", v |-> 100 + pc])
ExecRaise == Running /\ pc <= Last /\ Cur.op = "raise" /\ GuardTrue /\ Jump([k |-> "raise", e |-> Cur.a, v |-> pc])
ExecCraise == Running /\ pc <= Last /\ Cur.op = "craise" /\ Jump([k |-> "raise", e |-> Cur.a, v |-> pc])
\* bare raise: the exception being handled, else RuntimeError("No active exception to reraise")
ExecReraise == /\ Running /\ pc <= Last /\ Cur.op = "reraise" /\ GuardTrue
               /\ Jump(IF handled # <<>> THEN [k |-> "raise", e |-> Top(handled).e, v |-> Top(handled).v]
                       ELSE [k |-> "raise", e |-> "R", v |-> 0])
ExecBreak == Running /\ pc <= Last /\ Cur.op = "break" /\ GuardTrue /\ Jump([k |-> "break", e |-> "", v |-> 0])
ExecContinue == Running /\ pc <= Last /\ Cur.op = "cont" /\ GuardTrue /\ Jump([k |-> "continue", e |-> "", v |-> 0])

EnterTry == /\ Running /\ pc <= Last /\ Cur.op = "try"
            /\ stk' = Append(stk, SEntry("try", pc, "body")) /\ pc' = pc + 1
            /\ nTry' = nTry + (IF FinOf(pc) # 0 THEN 1 ELSE 0) /\ Tick
            /\ UNCHANGED <<prog, open, mode, x, dpt, comp, handled, out, res, nFin>>

\* control falls off the end of a section of a try statement
SectionEnd ==
  /\ Running /\ pc <= Last
  /\ Cur.op \in {"except", "else", "finally", "end"} /\ prog[OwnerOf(pc)].op = "try"
  /\ LET i == OwnerOf(pc)
         top == Top(stk)
         toFinally == /\ stk' = [stk EXCEPT ![Len(stk)] = [top EXCEPT !.ph = "finally", !.saved = Normal]]
                      /\ pc' = FinOf(i) + 1 /\ nFin' = nFin + 1 /\ UNCHANGED comp
         leave == /\ stk' = Pop(stk) /\ pc' = EndOf(i) + 1 /\ UNCHANGED <<nFin, comp>>
         after == IF FinOf(i) # 0 THEN toFinally ELSE leave
     IN /\ top.t = "try" /\ top.at = i
        /\ CASE top.ph = "body" ->
                  /\ UNCHANGED handled
                  /\ IF ElseOf(i) # 0
                     THEN /\ stk' = [stk EXCEPT ![Len(stk)] = [top EXCEPT !.ph = "else"]]
                          /\ pc' = ElseOf(i) + 1 /\ UNCHANGED <<nFin, comp>>
                     ELSE after
             [] top.ph = "handler" -> handled' = Pop(handled) /\ after
             [] top.ph = "else" -> UNCHANGED handled /\ after
             [] top.ph = "finally" ->
                  \* the finally section completed normally: resume the saved completion
                  /\ stk' = Pop(stk) /\ UNCHANGED nFin
                  /\ IF top.saved = Normal
                     THEN pc' = EndOf(i) + 1 /\ UNCHANGED <<comp, handled>>
                     ELSE /\ comp' = top.saved /\ UNCHANGED pc
                          /\ handled' = IF top.saved.k = "raise" THEN Pop(handled) ELSE handled
  /\ Tick
  /\ UNCHANGED <<prog, open, mode, x, dpt, out, res, nTry>>

HasLoopEntry(i) == stk # <<>> /\ Top(stk).t = "loop" /\ Top(stk).at = i
EnterLoop == /\ Running /\ pc <= Last /\ Cur.op = "loop" /\ ~HasLoopEntry(pc)
             /\ stk' = Append(stk, SEntry("loop", pc, "body")) /\ Tick
             /\ UNCHANGED <<prog, open, mode, x, dpt, pc, comp, handled, out, res, nTry, nFin>>
LoopHeader == /\ Running /\ pc <= Last /\ Cur.op = "loop" /\ HasLoopEntry(pc)
              /\ IF Top(stk).it < Cur.n
                 THEN stk' = [stk EXCEPT ![Len(stk)].it = @ + 1] /\ pc' = pc + 1
                 ELSE \* exhausted: the else clause runs outside the loop (break there leaves the outer loop)
                      stk' = Pop(stk) /\ pc' = (IF LElseOf(pc) # 0 THEN LElseOf(pc) ELSE EndOf(pc)) + 1
              /\ Tick
              /\ UNCHANGED <<prog, open, mode, x, dpt, comp, handled, out, res, nTry, nFin>>
LoopEnd == /\ Running /\ pc <= Last /\ Cur.op \in {"lelse", "end"} /\ prog[OwnerOf(pc)].op = "loop"
           /\ pc' = IF HasLoopEntry(OwnerOf(pc)) THEN OwnerOf(pc) ELSE pc + 1
           /\ Tick
           /\ UNCHANGED <<prog, open, mode, x, dpt, stk, comp, handled, out, res, nTry, nFin>>

\* def g() -> int: ...   immediately followed by   print(g())
CallDef == /\ Running /\ pc <= Last /\ Cur.op = "def"
           /\ stk' = Append(stk, SEntry("func", pc, "body")) /\ pc' = pc + 1 /\ Tick
           /\ UNCHANGED <<prog, open, mode, x, dpt, comp, handled, out, res, nTry, nFin>>
\* falling off the end of a function body: return 0
FallOff == /\ Running
           /\ \/ pc = Last + 1
              \/ pc <= Last /\ Cur.op = "end" /\ prog[OwnerOf(pc)].op = "def"
           /\ Jump([k |-> "return", e |-> "", v |-> 0])

\* ------------------------------------------------------------------ execution: abrupt completions
\* an exception reaches a try statement whose body is running and an except clause matches
Catch == /\ Unwinding /\ stk # <<>> /\ Top(stk).t = "try" /\ Top(stk).ph = "body"
         /\ comp.k = "raise" /\ HandlerFor(Top(stk).at, comp.e) # 0
         /\ stk' = [stk EXCEPT ![Len(stk)].ph = "handler"]
         /\ pc' = HandlerFor(Top(stk).at, comp.e) + 1
         /\ handled' = Append(handled, Exc(comp)) /\ comp' = Normal /\ Tick
         /\ UNCHANGED <<prog, open, mode, x, dpt, out, res, nTry, nFin>>

\* any other abrupt completion leaves the body / handler / else section: the finally section runs
\* with the completion saved (an exception counts as being handled meanwhile); without finally the
\* try statement is left
UnwindTry ==
  /\ Unwinding /\ stk # <<>> /\ Top(stk).t = "try" /\ Top(stk).ph \in {"body", "handler", "else"}
  /\ ~(Top(stk).ph = "body" /\ comp.k = "raise" /\ HandlerFor(Top(stk).at, comp.e) # 0)
  /\ LET top == Top(stk)
         h1 == IF top.ph = "handler" THEN Pop(handled) ELSE handled
     IN IF FinOf(top.at) # 0
        THEN /\ stk' = [stk EXCEPT ![Len(stk)] = [top EXCEPT !.ph = "finally", !.saved = comp]]
             /\ comp' = Normal /\ pc' = FinOf(top.at) + 1 /\ nFin' = nFin + 1
             /\ handled' = IF comp.k = "raise" THEN Append(h1, Exc(comp)) ELSE h1
        ELSE /\ stk' = Pop(stk) /\ handled' = h1 /\ UNCHANGED <<comp, pc, nFin>>
  /\ Tick
  /\ UNCHANGED <<prog, open, mode, x, dpt, out, res, nTry>>

\* an abrupt completion of the finally section itself replaces the saved one
FinallyOverride ==
  /\ Unwinding /\ stk # <<>> /\ Top(stk).t = "try" /\ Top(stk).ph = "finally"
  /\ stk' = Pop(stk)
  /\ handled' = IF Top(stk).saved.k = "raise" THEN Pop(handled) ELSE handled
  /\ comp' = IF ~FinallyOverrides /\ Top(stk).saved.k = "raise" THEN Top(stk).saved ELSE comp
  /\ Tick
  /\ UNCHANGED <<prog, open, mode, x, dpt, pc, out, res, nTry, nFin>>

UnwindLoop ==
  /\ Unwinding /\ stk # <<>> /\ Top(stk).t = "loop"
  /\ CASE comp.k = "break" -> stk' = Pop(stk) /\ pc' = EndOf(Top(stk).at) + 1 /\ comp' = Normal
       [] comp.k = "continue" -> UNCHANGED stk /\ pc' = Top(stk).at /\ comp' = Normal
       [] OTHER -> stk' = Pop(stk) /\ UNCHANGED <<pc, comp>>
  /\ Tick
  /\ UNCHANGED <<prog, open, mode, x, dpt, handled, out, res, nTry, nFin>>

\* the nested function returns v: the caller prints v; it raises: the call statement raises
UnwindFunc ==
  /\ Unwinding /\ stk # <<>> /\ Top(stk).t = "func" /\ comp.k \in {"return", "raise"}
  /\ stk' = Pop(stk)
  /\ IF comp.k = "return"
     THEN out' = Append(out, comp.v) /\ pc' = EndOf(Top(stk).at) + 1 /\ comp' = Normal
     ELSE UNCHANGED <<out, pc, comp>>
  /\ Tick
  /\ UNCHANGED <<prog, open, mode, x, dpt, handled, res, nTry, nFin>>

Halt == /\ Unwinding /\ stk = <<>> /\ comp.k \in {"return", "raise"}
        /\ mode' = "halt" /\ res' = comp
        /\ UNCHANGED <<prog, open, x, dpt, pc, stk, comp, handled, out, nTry, nFin, steps>>
Done == Stutter /\ mode = "halt" /\ UNCHANGED vars

\* ------------------------------------------------------------------ behaviour
Init == /\ prog = <<>> /\ open = <<>> /\ mode = "gen" /\ x = 0 /\ dpt = <<>> /\ pc = 0
        /\ stk = <<>> /\ comp = Normal /\ handled = <<>> /\ out = <<>> /\ res = Normal
        /\ nTry = 0 /\ nFin = 0 /\ steps = 0
Gen == \/ AddPrint \/ AddReturn \/ AddRaise \/ AddCraise \/ AddReraise \/ AddLoopJump
       \/ OpenTry \/ OpenLoop \/ OpenDef
       \/ AddExcept \/ AddElse \/ AddFinally \/ AddLoopElse \/ Close \/ Finish
Run == \/ ExecPrint \/ SkipGuarded \/ ExecReturn \/ ExecRaise \/ ExecCraise \/ ExecReraise
       \/ ExecBreak \/ ExecContinue \/ EnterTry \/ SectionEnd \/ EnterLoop \/ LoopHeader \/ LoopEnd
       \/ CallDef \/ FallOff
       \/ Catch \/ UnwindTry \/ FinallyOverride \/ UnwindLoop \/ UnwindFunc \/ Halt
Next == Gen \/ Run \/ Done
Spec == Init /\ [][Next]_vars

\* ------------------------------------------------------------------ properties of the semantics
TryEntries == {i \in DOMAIN stk : stk[i].t = "try"}
\* the handled-exception stack mirrors the control stack
HandledMirrorsStack ==
  mode = "run" => Len(handled) = Cardinality({i \in TryEntries : stk[i].ph = "handler"
                                                \/ (stk[i].ph = "finally" /\ stk[i].saved.k = "raise")})
\* a finally clause runs exactly once per entry of its try statement, however the statement is left
FinallyAlwaysRuns ==
  /\ mode = "run" => nTry - nFin = Cardinality({i \in TryEntries : FinOf(stk[i].at) # 0 /\ stk[i].ph # "finally"})
  /\ mode = "halt" => nTry = nFin
\* break / continue always have a loop of the same function to go to; return / raise a function
TopFunc == MaxOf({i \in DOMAIN stk : stk[i].t = "func"})
JumpTargetsExist ==
  (mode = "run" /\ comp.k \in {"break", "continue"}) => \E i \in DOMAIN stk : i > TopFunc /\ stk[i].t = "loop"
\* in normal flow a clause keyword is only reached by the try statement that owns it
StructuredFlow ==
  (Running /\ pc <= Last /\ Cur.op \in {"except", "else", "finally"}) =>
     stk # <<>> /\ Top(stk).t = "try" /\ Top(stk).at = OwnerOf(pc)
ResultShape == mode = "halt" => /\ res.k \in {"return", "raise"} /\ stk = <<>> /\ handled = <<>>
                                /\ (res.k = "raise" => res.e \in Excs \cup {"R"})
\* every execution halts: the number of steps is bounded by the program structure
StepBound == 4 * (Last + 2) * (IF LoopKinds = {} THEN 1 ELSE (LoopN + 1) * (LoopN + 1) * (LoopN + 1))
Terminates == steps <= StepBound
\* every generated prefix is completable (checked together with TLC's deadlock check)
Completable == mode = "gen" => (Last = 0 \/ Fits(prog, open))

\* ------------------------------------------------------------------ emission (Gen configs)
Emit == mode = "halt" => PrintT(<<"P", ToJson([p |-> prog, x |-> x, out |-> out, r |-> res])>>)
=============================================================================
