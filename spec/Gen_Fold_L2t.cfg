SPECIFICATION Spec
CONSTANTS
  Toks <- ToksL2t
  BinOps <- AllBin
  UnOps <- AllUn
  MaxDepth = 2
  FloorDiv = TRUE
INVARIANT Emit
