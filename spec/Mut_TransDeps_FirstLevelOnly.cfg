SPECIFICATION Spec
CONSTANTS
 N = 4
 FirstLevelOnly = TRUE
 Reexports = FALSE
INVARIANT FreshIsSound
INVARIANT HashCoversReach
