---------------------------- MODULE Ipc ----------------------------
(* Framing of mypy/ipc.py: IPCBase.write_bytes / read_bytes / frame_from_buffer.
   A sender writes frames (4-byte big-endian length header + payload) while a receiver,
   whose recv() calls return arbitrary non-empty chunks of the byte stream, reassembles
   them with the two fields `buffer` and `message_size`.

   Bytes are abstract records so that any mix-up is visible:
     header byte  [h |-> n]   (n = the frame length in the LAST header byte, 0 in the others)
     payload byte [m |-> i, o |-> k]   (k-th byte of the i-th frame)

   One action per step of the code:
     Send         IPCBase.write_bytes          (sendall of header+payload)
     CloseSender  the peer closes its end
     Recv(n)      connection.recv() returning n >= 1 bytes, buffer.extend
     Frame        frame_from_buffer() returning a frame (read_bytes returns it)
     Latch        frame_from_buffer() seeing a complete header of an incomplete frame
     Eof          recv() returning b"" : read_bytes returns b""
*)
EXTENDS Naturals, Sequences, TLC, Json
CONSTANTS Lens          \* payload lengths of the frames to send, e.g. <<1, 3, 2>> (each >= 1)
H == 4
NoSize == 999           \* message_size = None
VARIABLES nextSend, senderOpen, wire, buffer, msgSize, delivered, eof, h
vars == <<nextSend, senderOpen, wire, buffer, msgSize, delivered, eof, h>>
view == <<nextSend, senderOpen, wire, buffer, msgSize, delivered, eof>>

Hdr(n) == <<[h |-> 0], [h |-> 0], [h |-> 0], [h |-> n]>>
Payload(i) == [k \in 1..Lens[i] |-> [m |-> i, o |-> k]]
Encode(i) == Hdr(Lens[i]) \o Payload(i)

Init == /\ nextSend = 1 /\ senderOpen = TRUE /\ wire = <<>> /\ buffer = <<>>
        /\ msgSize = NoSize /\ delivered = <<>> /\ eof = FALSE /\ h = <<>>

Send == /\ senderOpen /\ nextSend <= Len(Lens)
        /\ wire' = wire \o Encode(nextSend) /\ nextSend' = nextSend + 1
        /\ h' = Append(h, [a |-> "send", n |-> Lens[nextSend], b |-> 0, ms |-> 0])
        /\ UNCHANGED <<senderOpen, buffer, msgSize, delivered, eof>>
CloseSender == /\ senderOpen /\ nextSend > Len(Lens) /\ senderOpen' = FALSE
               /\ h' = Append(h, [a |-> "close", n |-> 0, b |-> 0, ms |-> 0])
               /\ UNCHANGED <<nextSend, wire, buffer, msgSize, delivered, eof>>

\* ---- frame_from_buffer
HaveHeader == Len(buffer) >= H
SizeNow == IF msgSize = NoSize THEN buffer[H].h ELSE msgSize
HaveFrame == HaveHeader /\ Len(buffer) >= SizeNow + H
Frame == /\ ~eof /\ HaveFrame
         /\ delivered' = Append(delivered, SubSeq(buffer, H + 1, H + SizeNow))
         /\ buffer' = SubSeq(buffer, H + SizeNow + 1, Len(buffer))
         /\ msgSize' = NoSize
         /\ h' = Append(h, [a |-> "frame", n |-> SizeNow, b |-> Len(buffer'), ms |-> NoSize])
         /\ UNCHANGED <<nextSend, senderOpen, wire, eof>>
Latch == /\ ~eof /\ HaveHeader /\ ~HaveFrame /\ msgSize = NoSize /\ msgSize' = buffer[H].h
         /\ UNCHANGED <<nextSend, senderOpen, wire, buffer, delivered, eof, h>>
\* the loop calls frame_from_buffer before every recv, so a recv happens only when no frame is available
\* and (if a header is there) the size has been latched
Recv == /\ ~eof /\ ~HaveFrame /\ (HaveHeader => msgSize # NoSize) /\ Len(wire) > 0
        /\ \E n \in 1..Len(wire) : /\ buffer' = buffer \o SubSeq(wire, 1, n)
                                    /\ wire' = SubSeq(wire, n + 1, Len(wire))
                                    /\ h' = Append(h, [a |-> "recv", n |-> n, b |-> Len(buffer), ms |-> msgSize])
        /\ UNCHANGED <<nextSend, senderOpen, msgSize, delivered, eof>>
Eof == /\ ~eof /\ ~HaveFrame /\ (HaveHeader => msgSize # NoSize) /\ Len(wire) = 0 /\ ~senderOpen
       /\ eof' = TRUE /\ h' = Append(h, [a |-> "eof", n |-> 0, b |-> Len(buffer), ms |-> msgSize])
       /\ UNCHANGED <<nextSend, senderOpen, wire, buffer, msgSize, delivered>>
Next == Send \/ CloseSender \/ Frame \/ Latch \/ Recv \/ Eof
Spec == Init /\ [][Next]_vars

\* ---- properties
\* delivered frames are exactly the frames sent, in order, each whole
PrefixOK == /\ Len(delivered) <= Len(Lens)
            /\ \A i \in 1..Len(delivered) : delivered[i] = Payload(i)
\* nothing is lost: at end of stream every frame was delivered and nothing is left over
AllAtEnd == eof => (Len(delivered) = Len(Lens) /\ buffer = <<>> /\ msgSize = NoSize)
\* the reassembly state is coherent: a latched size is the size in the buffered header
LatchCoherent == msgSize # NoSize => (HaveHeader /\ msgSize = buffer[H].h)
\* the unconsumed stream is always a suffix of what was sent: buffer \o wire = encoded frames not yet delivered
RECURSIVE EncodeFrom(_, _)
EncodeFrom(i, j) == IF i > j THEN <<>> ELSE Encode(i) \o EncodeFrom(i + 1, j)
StreamInv == buffer \o wire = EncodeFrom(Len(delivered) + 1, nextSend - 1)
\* delivery only appends (action property)
AppendOnly == [][Len(delivered') >= Len(delivered) /\ SubSeq(delivered', 1, Len(delivered)) = delivered]_vars

\* ---- behaviour emission for replay (Gen config only)
Complete == eof
Emit == Complete => PrintT(<<"HIST", ToJson(h)>>)
=====================================================================
