SPECIFICATION Spec
CONSTANT Lens <- LensA
VIEW view
INVARIANT PrefixOK
INVARIANT AllAtEnd
INVARIANT LatchCoherent
INVARIANT StreamInv
PROPERTY AppendOnly
