SPECIFICATION Spec
CONSTANT FSel <- SampleUseAfter
INVARIANT NoLeak
INVARIANT NoDoubleRelease
INVARIANT NoUndefRead
INVARIANT NoUseAfterRelease
INVARIANT Classified
