----------------------------- MODULE Parallel -----------------------------
(* mypy's parallel build (build.py process_graph / submit_to_workers / wait_for_done_workers,
   build_worker/worker.py serve): a coordinator and N workers that share the cache store.

   The import graph is given as a DAG of SCCs (`Deps`); `Stale` are the SCCs that have to be
   re-analysed in this run, the others are fresh (their cached errors are flushed by the
   coordinator).  One action per critical section of the code:

     FindStale      coordinator: find_stale_sccs over the SCCs that became ready: fresh ones are
                    flushed and count as done at once, stale ones go to the queue
     Submit(w,b)    coordinator: free_workers.pop() (ANY free worker) + get_scc_batch (ANY non-empty
                    batch of queued SCCs) + send(SccRequestMessage)
     W_Iface(w,s)   worker: process_stale_scc_interface of the next SCC of its batch: loads the
                    dependencies' interfaces from the COMMITTED store (reload_meta), writes data+meta
     W_Commit1(w)   worker: manager.commit() after each SCC
     W_Reply1(w)    worker: interface SccResponseMessage for the whole batch
     W_Impl(w)      worker: process_stale_scc_implementation of the batch: meta_ex records
     W_Commit2(w)   worker: manager.commit()
     W_Reply2(w)    worker: implementation SccResponseMessage (formatted errors)
     C_Recv(w)      coordinator: wait_for_done_workers reads ONE pending message of ANY worker:
                    interface => SCCs done, dependants may become ready; implementation => errors
                    flushed, worker free again
   Mutant switches (FALSE in the code as it is):
     ReplyBeforeCommit  the interface reply is sent before the commit
     DoneAtSubmit       the coordinator treats an SCC as done when it is submitted
*)
EXTENDS Naturals, FiniteSets, Sequences, TLC, Json
CONSTANTS N, Shape, StaleKind, ReplyBeforeCommit, DoneAtSubmit
Workers == 1..N
\* ---- a few SCC DAGs (x depends on Deps(x))
DepsOf(shape, s) ==
  CASE shape = "diamond" ->   \* 1 <- 2,3 ; {2,3} <- 4 ; 4 <- 5 ; 1 <- 6
         (CASE s = 1 -> {} [] s = 2 -> {1} [] s = 3 -> {1} [] s = 4 -> {2, 3} [] s = 5 -> {4} [] s = 6 -> {1})
    [] shape = "chain" ->     \* 1 <- 2 <- 3 <- 4 ; 5, 6 independent leaves
         (CASE s = 1 -> {} [] s = 2 -> {1} [] s = 3 -> {2} [] s = 4 -> {3} [] s = 5 -> {} [] s = 6 -> {})
    [] shape = "fan" ->       \* 1 <- 2,3,4,5 ; {2,3,4,5} <- 6
         (CASE s = 1 -> {} [] s = 2 -> {1} [] s = 3 -> {1} [] s = 4 -> {1} [] s = 5 -> {1} [] s = 6 -> {2, 3, 4, 5})
SCCs == 1..6
Deps(s) == DepsOf(Shape, s)
Dependants(s) == {t \in SCCs : s \in Deps(t)}
\* which SCCs are stale in this run: everything (cold), or only those that (transitively) depend on 2 (warm after an edit of 2)
RECURSIVE Reaches(_, _)
Reaches(t, s) == s \in Deps(t) \/ \E d \in Deps(t) : Reaches(d, s)
Stale == IF StaleKind = "cold" THEN SCCs ELSE {t \in SCCs : t = 2 \/ Reaches(t, 2)}

VARIABLES notReadyCount, readyNow, queue, free, done, submitted,
          wstate, wbatch, wtodo, pendIface, pendEx, committedIface, committedEx,
          chan, readOld, errsOut, h
vars == <<notReadyCount, readyNow, queue, free, done, submitted, wstate, wbatch, wtodo, pendIface, pendEx,
          committedIface, committedEx, chan, readOld, errsOut, h>>
mcview == <<notReadyCount, readyNow, queue, free, done, submitted, wstate, wbatch, wtodo, pendIface, pendEx,
            committedIface, committedEx, chan, readOld, errsOut>>

Init == /\ notReadyCount = [s \in SCCs |-> Cardinality(Deps(s))]
        /\ readyNow = {s \in SCCs : Deps(s) = {}}
        /\ queue = {} /\ free = Workers /\ done = {} /\ submitted = {}
        /\ wstate = [w \in Workers |-> "idle"] /\ wbatch = [w \in Workers |-> {}] /\ wtodo = [w \in Workers |-> {}]
        /\ pendIface = [w \in Workers |-> {}] /\ pendEx = [w \in Workers |-> {}]
        /\ committedIface = {} /\ committedEx = {}
        /\ chan = [w \in Workers |-> <<>>] /\ readOld = FALSE
        /\ errsOut = <<>> /\ h = <<>>

\* marking SCCs done releases their dependants
MarkDone(S, nrc, rdy) ==
   LET nrc2 == [t \in SCCs |-> nrc[t] - Cardinality({s \in S : s \in Deps(t)})]
   IN <<nrc2, rdy \cup {t \in SCCs : nrc2[t] = 0 /\ nrc[t] > 0}>>

\* ---- coordinator
FindStale == /\ readyNow # {}
             /\ LET fresh == readyNow \ Stale
                    stale == readyNow \cap Stale
                    md == MarkDone(fresh, notReadyCount, {})
                IN /\ queue' = queue \cup stale
                   /\ done' = done \cup fresh
                   /\ notReadyCount' = md[1] /\ readyNow' = md[2]
                   /\ errsOut' = errsOut \o [i \in 1..Cardinality(fresh) |-> [s |-> 0, ph |-> "fresh"]]   \* count only
                   /\ h' = h
             /\ UNCHANGED <<free, submitted, wstate, wbatch, wtodo, pendIface, pendEx, committedIface, committedEx, chan, readOld>>
Submit == /\ readyNow = {}            \* the loop first walks over everything that is ready
          /\ \E w \in free, b \in (SUBSET queue) \ {{}} :
               /\ free' = free \ {w} /\ queue' = queue \ b /\ submitted' = submitted \cup b
               /\ wbatch' = [wbatch EXCEPT ![w] = b] /\ wtodo' = [wtodo EXCEPT ![w] = b]
               /\ wstate' = [wstate EXCEPT ![w] = "iface"]
               /\ h' = Append(h, [ev |-> "submit", w |-> w, sccs |-> b])
               /\ IF DoneAtSubmit
                  THEN LET md == MarkDone(b, notReadyCount, readyNow) IN
                         /\ done' = done \cup b /\ notReadyCount' = md[1] /\ readyNow' = md[2]
                  ELSE UNCHANGED <<done, notReadyCount, readyNow>>
          /\ UNCHANGED <<pendIface, pendEx, committedIface, committedEx, chan, readOld, errsOut>>
C_Recv(w) == /\ Len(chan[w]) > 0
             /\ LET msg == Head(chan[w]) IN
                 /\ chan' = [chan EXCEPT ![w] = Tail(@)]
                 /\ h' = Append(h, [ev |-> "recv", w |-> w, sccs |-> msg.b, ph |-> msg.ph])
                 /\ IF msg.ph = 1
                    THEN /\ IF DoneAtSubmit THEN UNCHANGED <<done, notReadyCount, readyNow>>
                            ELSE LET md == MarkDone(msg.b, notReadyCount, readyNow) IN
                                   /\ done' = done \cup msg.b /\ notReadyCount' = md[1] /\ readyNow' = md[2]
                         /\ UNCHANGED <<free, errsOut>>
                    ELSE /\ free' = free \cup {w}
                         /\ errsOut' = errsOut \o [i \in 1..1 |-> [s |-> msg.b, ph |-> "impl"]]
                         /\ UNCHANGED <<done, notReadyCount, readyNow>>
             /\ UNCHANGED <<queue, submitted, wstate, wbatch, wtodo, pendIface, pendEx, committedIface, committedEx, readOld>>
\* ---- workers
W_Iface(w) == /\ wstate[w] = "iface" /\ wtodo[w] # {}
              /\ \E s \in wtodo[w] :
                   /\ wtodo' = [wtodo EXCEPT ![w] = @ \ {s}]
                   /\ pendIface' = [pendIface EXCEPT ![w] = @ \cup {s}]
                   \* a stale dependency must be read in its NEW version: committed by whoever produced it
                   /\ readOld' = (readOld \/ \E d \in Deps(s) \cap Stale : d \notin committedIface /\ d \notin pendIface[w])
              /\ wstate' = [wstate EXCEPT ![w] = IF ReplyBeforeCommit THEN (IF wtodo'[w] = {} THEN "reply1" ELSE "iface") ELSE "commit1"]
              /\ UNCHANGED <<notReadyCount, readyNow, queue, free, done, submitted, wbatch, pendEx, committedIface, committedEx, chan, errsOut, h>>
W_Commit1(w) == /\ wstate[w] = "commit1"
                /\ committedIface' = committedIface \cup pendIface[w] /\ pendIface' = [pendIface EXCEPT ![w] = {}]
                /\ wstate' = [wstate EXCEPT ![w] = IF ReplyBeforeCommit THEN "impl" ELSE (IF wtodo[w] = {} THEN "reply1" ELSE "iface")]
                /\ UNCHANGED <<notReadyCount, readyNow, queue, free, done, submitted, wbatch, wtodo, pendEx, committedEx, chan, readOld, errsOut, h>>
W_Reply1(w) == /\ wstate[w] = "reply1"
               /\ chan' = [chan EXCEPT ![w] = Append(@, [ph |-> 1, b |-> wbatch[w]])]
               /\ wstate' = [wstate EXCEPT ![w] = IF ReplyBeforeCommit THEN "commit1" ELSE "impl"]
               /\ UNCHANGED <<notReadyCount, readyNow, queue, free, done, submitted, wbatch, wtodo, pendIface, pendEx, committedIface, committedEx, readOld, errsOut, h>>
W_Impl(w) == /\ wstate[w] = "impl" /\ pendEx' = [pendEx EXCEPT ![w] = wbatch[w]]
             /\ wstate' = [wstate EXCEPT ![w] = "commit2"]
             /\ UNCHANGED <<notReadyCount, readyNow, queue, free, done, submitted, wbatch, wtodo, pendIface, committedIface, committedEx, chan, readOld, errsOut, h>>
W_Commit2(w) == /\ wstate[w] = "commit2"
                /\ committedEx' = committedEx \cup pendEx[w] /\ pendEx' = [pendEx EXCEPT ![w] = {}]
                /\ wstate' = [wstate EXCEPT ![w] = "reply2"]
                /\ UNCHANGED <<notReadyCount, readyNow, queue, free, done, submitted, wbatch, wtodo, pendIface, committedIface, chan, readOld, errsOut, h>>
W_Reply2(w) == /\ wstate[w] = "reply2"
               /\ chan' = [chan EXCEPT ![w] = Append(@, [ph |-> 2, b |-> wbatch[w]])]
               /\ wstate' = [wstate EXCEPT ![w] = "idle"]
               /\ UNCHANGED <<notReadyCount, readyNow, queue, free, done, submitted, wbatch, wtodo, pendIface, pendEx, committedIface, committedEx, readOld, errsOut, h>>
Next == FindStale \/ Submit
        \/ \E w \in Workers : C_Recv(w) \/ W_Iface(w) \/ W_Commit1(w) \/ W_Reply1(w) \/ W_Impl(w) \/ W_Commit2(w) \/ W_Reply2(w)
Spec == Init /\ [][Next]_vars

\* ---- properties
\* a worker never analyses an SCC against a stale dependency's OLD interface
ReadsCommitted == ~readOld
\* an SCC is submitted only when every dependency is interface-done (or fresh)
NoPrematureSubmit == \A s \in submitted : \A d \in Deps(s) : d \in (SCCs \ Stale) \/ d \in committedIface \/ d \in submitted
SubmittedDepsDone == [][\A w \in Workers : (wbatch'[w] # wbatch[w]) => \A s \in wbatch'[w] : Deps(s) \subseteq done]_vars
\* every stale SCC is submitted exactly once (sets: at most once by construction of queue; never re-queued)
EachStaleOnce == submitted \subseteq Stale /\ queue \cap submitted = {}
ImplReported(s) == Cardinality({i \in 1..Len(errsOut) : errsOut[i].ph = "impl" /\ s \in errsOut[i].s})
ErrorsOnce == \A s \in SCCs : ImplReported(s) <= 1
Terminated == /\ \A w \in Workers : wstate[w] = "idle" /\ chan[w] = <<>>
              /\ queue = {} /\ readyNow = {} /\ done = SCCs
AtEnd == (~ENABLED Next) =>
           /\ Terminated
           /\ committedIface = Stale /\ committedEx = Stale
           /\ \A s \in Stale : ImplReported(s) = 1
           /\ free = Workers
\* emission of complete behaviours (Gen config)
Emit == (~ENABLED Next) => PrintT(<<"HIST", ToJson(h)>>)
===========================================================================
