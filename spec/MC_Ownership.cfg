SPECIFICATION Spec
CONSTANT FSel <- AllFuncs
INVARIANT NoLeak
INVARIANT NoDoubleRelease
INVARIANT NoUndefRead
INVARIANT NoUseAfterRelease
INVARIANT Classified
