SPECIFICATION Spec
CONSTANT FSel <- AllFuncs
INVARIANT Report
INVARIANT Exits
