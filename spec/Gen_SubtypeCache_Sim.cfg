SPECIFICATION Spec
CONSTANTS
  KeyOf <- BuildSubtypeKind
  Ask = "all"
  MaxQ = 3
  MaxR = 2
INVARIANT Emit
