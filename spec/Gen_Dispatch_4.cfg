SPECIFICATION DSpec
CONSTANTS
  N = 4
  UseBaseList = TRUE
  UseProps = TRUE
INVARIANT EmitD
