SPECIFICATION Spec
CONSTANTS
  Paths <- PathsDef
  Contents <- ContentsDef
  CoarseClock = TRUE
  MaxEnv = 3
  MaxOps = 3
VIEW mcview
INVARIANT Exact
INVARIANT SnapCoherent
