SPECIFICATION Spec
CONSTANTS
  NP = 3
  NA = 2
  MaxStar = 2
  MaxTD = 2
  GenSigs = TRUE
INVARIANT EmitSigs
INVARIANT EmitCall
