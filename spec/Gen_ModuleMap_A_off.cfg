SPECIFICATION Spec
CONSTANTS
  Universe <- UnivA
  MaxFiles = 8
  Names <- AllNames
  Configs <- ConfigsNsOff
  ShadowRule = "asis"
INVARIANT TypeOK
INVARIANT RoundTrip
INVARIANT RoundTripFind
INVARIANT FindInvertsCrawl
INVARIANT OrderIndependenceModuloShadow
INVARIANT DirVersusFilesModuloShadow
INVARIANT DirVersusPackageModuloShadow
INVARIANT Emit
