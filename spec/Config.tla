------------------------------ MODULE Config ------------------------------
(* Where the value of ONE mypy option comes from for a module, when several configuration
   sources set it.

   Sources (docs/source/config_file.rst "config-precedence", inline_config.rst):
     inline     a `# mypy: opt=val` comment in the module's own source file
     sections   the `[mypy-PATTERN]` sections of the config file, in file order; a pattern is
                  concrete      foo.bar        matches only that module
                  structured    foo.bar.*      matches foo.bar and every submodule
                  unstructured  foo.*.baz, *.baz   star anywhere else; "stars match zero or more
                                                   module components"
     cmd        the command line flag
     umbrellas  a flag that assigns a whole group of options at once (`--strict` on the command line,
                `strict = True` in [mypy]): it gives the option the value UVal AT THE RANK OF THE PLACE
                IT IS WRITTEN, below an explicit setting of the option itself at the same place
                (command_line.rst: "Directly specifying a flag of alternate behavior will override the
                behavior of strict, regardless of the order in which they are passed")
     glob       the `[mypy]` section of the config file
   A source either leaves the option alone (Unset) or gives it one of `Values`.

   Two descriptions are kept side by side and compared by TLC:

   (a) Resolve(m): the DOCUMENTED rule, written from the documentation only:
         inline > concrete section > unstructured sections (later in the file wins) >
         structured sections (more specific wins) > command line > [mypy] section > default
   (b) the IMPLEMENTATION, transcribed from mypy/main.py process_options,
       mypy/options.py build_per_module_cache / clone_for_module / compile_glob and
       mypy/build.py State.apply_inline_configuration, one action per step of the code:
         WriteSection    configparser keeps sections in file order; parse_config_file stores
                         options.per_module_options[glob] = updates in that order
         WriteGlobal     the [mypy] section: setattr(options, k, v)
         ProcessOptions  argparse runs over the Options object already filled from the file
                         (command line overrides [mypy]); gives `base`
         BuildStart      build_per_module_cache: split keys into unstructured globs (kept in
                         file order in _glob_options), structured wildcards (SORTED) and
                         concrete keys (file order); queue = wildcards + concrete
         BuildKey        one iteration of `for key in wildcards + concrete`:
                         _per_module_cache[key] = clone_for_module(key).apply_changes(section)
         InlineComment   clone_for_module(m) for a real module, then parse_mypy_comments +
                         apply_changes on the clone
       Module and pattern names are sequences of components; components are single
       characters so that the code's string operations (sorted(), k[:-1], endswith(".*"),
       the regular expression of compile_glob) can be transcribed on the character string
       Chars(name) exactly.

   The conformance harness (harness/drivers/c17.py) replays every configuration TLC emits
   into the real code and compares the real per-module value with Resolve (the oracle) and
   with the model's implementation side (drift detection), and the real _per_module_cache with
   `cache`.
*)
EXTENDS Naturals, Sequences, FiniteSets, TLC, Json

CONSTANTS
  Patterns,         \* section patterns that may be used (each at most once per file)
  ModSeq,           \* the module names observed, as a sequence (fixed order for emission)
  ValSeq,           \* values a source can give the option (pairwise conflicting), as a sequence of
                    \* single-character strings (fixed order for emission)
  Default,          \* the option's built-in default
  MaxSections,
  FirstPats,        \* patterns allowed in the FIRST section (= Patterns; subsets partition the emission runs)
  Letters,          \* component alphabet in ASCII order, e.g. <<"a","b","c">>
  SortWildcards,    \* TRUE = the code (sorted(...)); FALSE = specification-level mutant
  WildcardsFirst,   \* TRUE = the code (wildcards + concrete); FALSE = mutant (concrete + wildcards)
  LastGlobWins,     \* TRUE = the code (globs applied in file order); FALSE = mutant (first match only)
  LeadingStarZero,  \* reading of the documentation: may a LEADING star stand for zero components?
  Umbrella,         \* TRUE: the umbrella flag may be written on the command line / in [mypy] (else never)
  UVal,             \* the value the umbrella assigns to the observed option
  UmbrellaAfterConfig  \* TRUE = the code (command-line --strict applied after the config file); FALSE = mutant

Unset == "-"
Star == "*"
Modules == {ModSeq[i] : i \in DOMAIN ModSeq}
Values == {ValSeq[i] : i \in DOMAIN ValSeq}
Choice == Values \cup {Unset}
UChoice == IF Umbrella THEN BOOLEAN ELSE {FALSE}

VARIABLES
  stage,      \* "file" "cmdline" "start" "build" "done"
  sections,   \* sequence of [pat, val] in file order
  glob, cmd, inline,
  globU, cmdU,  \* the umbrella is written in [mypy] / on the command line
  base,       \* value on the Options object returned by process_options
  globs,      \* Options._glob_options (keys, file order)
  queue,      \* keys still to be processed by build_per_module_cache
  cache       \* Options._per_module_cache restricted to this option: key -> value
vars == <<stage, sections, glob, cmd, inline, globU, cmdU, base, globs, queue, cache>>

Last(s) == s[Len(s)]
Front(s) == SubSeq(s, 1, Len(s) - 1)
Drop(s, k) == SubSeq(s, k + 1, Len(s))
HasStar(p) == \E i \in 1..Len(p) : p[i] = Star
Apply(o, v) == IF v = Unset THEN o ELSE v        \* Options.apply_changes for one key
Pats == {sections[i].pat : i \in 1..Len(sections)}
SectionOf(k) == sections[CHOOSE i \in 1..Len(sections) : sections[i].pat = k]

(* ======================================================================================
   (a) THE DOCUMENTED RULE
   ====================================================================================== *)
DocConcrete(p) == ~HasStar(p)
DocStructured(p) == Len(p) >= 2 /\ Last(p) = Star /\ ~HasStar(Front(p))
DocUnstructured(p) == HasStar(p) /\ ~DocStructured(p)

\* "Stars match zero or more module components (so site.*.migrations.* can match site.migrations)"
RECURSIVE GlobMatch(_, _)
GlobMatch(p, m) ==
  IF p = <<>> THEN m = <<>>
  ELSE IF Head(p) = Star THEN \E k \in 0..Len(m) : GlobMatch(Tail(p), Drop(m, k))
  ELSE m # <<>> /\ Head(m) = Head(p) /\ GlobMatch(Tail(p), Tail(m))

DocMatches(p, m) ==
  IF DocConcrete(p) THEN p = m                                   \* "matches only the named module"
  ELSE IF DocStructured(p)                                       \* "dotted_module_name.* matches dotted_module_name and any submodules"
       THEN Len(m) >= Len(p) - 1 /\ SubSeq(m, 1, Len(p) - 1) = Front(p)
  ELSE IF Head(p) = Star /\ ~LeadingStarZero
       THEN \E k \in 1..Len(m) : GlobMatch(Tail(p), Drop(m, k))
  ELSE GlobMatch(p, m)

\* sections of one documented kind that match m and set the option
Cands(m, Kind(_)) == {i \in 1..Len(sections) :
                        /\ Kind(sections[i].pat) /\ DocMatches(sections[i].pat, m)
                        /\ sections[i].val # Unset}
MaxOf(S) == CHOOSE i \in S : \A j \in S : j <= i
MostSpecific(S) == CHOOSE i \in S : \A j \in S : Len(sections[j].pat) <= Len(sections[i].pat)

ResolveWith(m, inl) ==
  IF inl # Unset THEN inl                                                          \* 1. inline
  ELSE IF Cands(m, DocConcrete) # {} THEN sections[MaxOf(Cands(m, DocConcrete))].val   \* 2. concrete
  ELSE IF Cands(m, DocUnstructured) # {}
       THEN sections[MaxOf(Cands(m, DocUnstructured))].val                         \* 3. later wins
  ELSE IF Cands(m, DocStructured) # {}
       THEN sections[MostSpecific(Cands(m, DocStructured))].val                    \* 4. more specific wins
  ELSE IF cmd # Unset THEN cmd                                                     \* 5. command line
  ELSE IF cmdU THEN UVal                                                           \*    (umbrella flag there)
  ELSE IF glob # Unset THEN glob                                                   \* 6. [mypy]
  ELSE IF globU THEN UVal                                                          \*    (umbrella key there)
  ELSE Default
Resolve(m) == ResolveWith(m, inline)

(* ======================================================================================
   (b) THE IMPLEMENTATION
   ====================================================================================== *)
\* ---- names as character strings
RECURSIVE Chars(_)
Chars(p) == IF Len(p) = 1 THEN <<p[1]>> ELSE <<p[1], ".">> \o Chars(Tail(p))
Rank(c) == IF c = Star THEN 1 ELSE IF c = "." THEN 2        \* ord("*") < ord(".") < letters
           ELSE 2 + (CHOOSE i \in 1..Len(Letters) : Letters[i] = c)
RECURSIVE StrLess(_, _)
StrLess(s, t) ==                                              \* Python's str.__lt__
  IF s = <<>> THEN t # <<>>
  ELSE IF t = <<>> THEN FALSE
  ELSE IF Head(s) # Head(t) THEN Rank(Head(s)) < Rank(Head(t))
  ELSE StrLess(Tail(s), Tail(t))
KeyLess(p, q) == StrLess(Chars(p), Chars(q))

\* ---- build_per_module_cache's classification of keys (string tests)
\*   "*" in k[:-1]      : a star that is not the LAST CHARACTER; stars are whole components
\*                        (parse_config_file rejects anything else), so: a star component that is not last
\*   k.endswith(".*")   : at least two components and the last one is the star
IsUnstructuredKey(k) == \E i \in 1..(Len(k) - 1) : k[i] = Star
EndsDotStar(k) == Len(k) >= 2 /\ Last(k) = Star
KeysInFileOrder == [i \in 1..Len(sections) |-> sections[i].pat]
UnstructuredKeys == SelectSeq(KeysInFileOrder, IsUnstructuredKey)
StructuredKeys == SelectSeq(KeysInFileOrder, LAMBDA k : ~IsUnstructuredKey(k))
WildcardKeys == LET w == SelectSeq(StructuredKeys, EndsDotStar)
                IN IF SortWildcards THEN SortSeq(w, KeyLess) ELSE w
ConcreteKeys == SelectSeq(StructuredKeys, LAMBDA k : ~EndsDotStar(k))

\* ---- compile_glob: the regular expression, as a token list, and its matcher over characters
\*   parts[0]:  "*" -> `.*`            else the literal
\*   parts[i]:  "*" -> `(\..*)?`       else `\.` + the literal
RECURSIVE CompileRest(_)
CompileRest(ps) == IF ps = <<>> THEN <<>>
                   ELSE (IF Head(ps) = Star THEN <<"OPT">> ELSE <<".", Head(ps)>>) \o CompileRest(Tail(ps))
CompileGlob(p) == (IF Head(p) = Star THEN <<"ANY">> ELSE <<Head(p)>>) \o CompileRest(Tail(p))
RECURSIVE ReMatch(_, _)
ReMatch(toks, s) ==                                           \* pattern.match(s) with the trailing \Z
  IF toks = <<>> THEN s = <<>>
  ELSE LET t == Head(toks)  r == Tail(toks) IN
       IF t = "ANY" THEN \E k \in 0..Len(s) : ReMatch(r, Drop(s, k))
       ELSE IF t = "OPT" THEN \/ ReMatch(r, s)
                              \/ s # <<>> /\ Head(s) = "." /\ \E k \in 1..Len(s) : ReMatch(r, Drop(s, k))
       ELSE s # <<>> /\ Head(s) = t /\ ReMatch(r, Tail(s))
GlobKeyMatches(g, m) == ReMatch(CompileGlob(g), Chars(m))

\* ---- clone_for_module(module)   (module may also be a structured key during the build)
\* for i in range(len(path), 0, -1): key = ".".join(path[:i] + ["*"]); if key in cache: ...; break
RECURSIVE ParentLookup(_, _)
ParentLookup(path, i) ==
  IF i = 0 THEN base
  ELSE LET key == Append(SubSeq(path, 1, i), Star)
       IN IF key \in DOMAIN cache THEN cache[key] ELSE ParentLookup(path, i - 1)
\* for key, pattern in self._glob_options: if pattern.match(module): options = options.apply_changes(...)
RECURSIVE ApplyGlobs(_, _, _)
ApplyGlobs(gs, m, o) ==
  IF gs = <<>> THEN o
  ELSE IF GlobKeyMatches(Head(gs), m)
       THEN IF LastGlobWins THEN ApplyGlobs(Tail(gs), m, Apply(o, SectionOf(Head(gs)).val))
            ELSE IF SectionOf(Head(gs)).val # Unset THEN SectionOf(Head(gs)).val
            ELSE ApplyGlobs(Tail(gs), m, o)
       ELSE ApplyGlobs(Tail(gs), m, o)
CloneForModule(m) ==
  IF m \in DOMAIN cache THEN cache[m]
  ELSE LET o == ParentLookup(m, Len(m))
       IN IF EndsDotStar(m) THEN o ELSE ApplyGlobs(globs, m, o)

\* value the checker finally uses for module m whose file carries the inline comment `inl`
ImplWith(m, inl) == Apply(CloneForModule(m), inl)
Impl(m) == ImplWith(m, inline)

\* ---- actions
NoCache == [k \in {} |-> Unset]
Init == /\ stage = "file" /\ sections = <<>> /\ glob = Unset /\ cmd = Unset /\ inline = Unset
        /\ globU = FALSE /\ cmdU = FALSE
        /\ base = Default /\ globs = <<>> /\ queue = <<>> /\ cache = NoCache

WriteSection == /\ stage = "file" /\ Len(sections) < MaxSections
                /\ \E p \in (IF sections = <<>> THEN FirstPats ELSE Patterns) \ Pats, v \in Choice :
                      sections' = Append(sections, [pat |-> p, val |-> v])
                /\ UNCHANGED <<stage, glob, cmd, inline, globU, cmdU, base, globs, queue, cache>>
WriteGlobal == /\ stage = "file"
               /\ \E v \in Choice, u \in UChoice : glob' = v /\ globU' = u
               /\ stage' = "cmdline"
               /\ UNCHANGED <<sections, cmd, inline, cmdU, base, globs, queue, cache>>
\* main.process_options:
\*   parse_config_file: parse_section([mypy]) calls set_strict_flags() the moment it meets `strict = True`
\*     (setattr on the Options object) and only COLLECTS the other keys, which are setattr'd after the loop:
\*     an explicit key of the section beats the umbrella whatever their order       -> AfterFile
\*   `if dummy.strict: set_strict_flags()`  -- command-line --strict, applied after the config file
\*   parser.parse_args(args, options)       -- explicit command-line flags last
AfterFile == Apply(IF globU THEN UVal ELSE Default, glob)
ProcessOptions == /\ stage = "cmdline"
                  /\ \E v \in Choice, u \in UChoice :
                        /\ cmd' = v /\ cmdU' = u
                        /\ base' = IF UmbrellaAfterConfig
                                   THEN Apply(IF u THEN UVal ELSE AfterFile, v)
                                   ELSE Apply(Apply(IF u \/ globU THEN UVal ELSE Default, glob), v)
                  /\ stage' = "start"
                  /\ UNCHANGED <<sections, glob, inline, globU, globs, queue, cache>>
BuildStart == /\ stage = "start"
              /\ globs' = UnstructuredKeys
              /\ queue' = IF WildcardsFirst THEN WildcardKeys \o ConcreteKeys ELSE ConcreteKeys \o WildcardKeys
              /\ cache' = NoCache
              /\ stage' = "build"
              /\ UNCHANGED <<sections, glob, cmd, inline, globU, cmdU, base>>
BuildKey == /\ stage = "build" /\ queue # <<>>
            /\ LET k == Head(queue)
                   v == Apply(CloneForModule(k), SectionOf(k).val)
               IN cache' = [x \in DOMAIN cache \cup {k} |-> IF x = k THEN v ELSE cache[x]]
            /\ queue' = Tail(queue)
            /\ UNCHANGED <<stage, sections, glob, cmd, inline, globU, cmdU, base, globs>>
Ready == stage = "build" /\ queue = <<>>
InlineComment == /\ Ready
                 /\ \E v \in Choice : inline' = v
                 /\ stage' = "done"
                 /\ UNCHANGED <<sections, glob, cmd, globU, cmdU, base, globs, queue, cache>>

Next == WriteSection \/ WriteGlobal \/ ProcessOptions \/ BuildStart \/ BuildKey \/ InlineComment
Spec == Init /\ [][Next]_vars
\* emission: stop before the inline comment is chosen (the emitted record tabulates all choices)
GenNext == WriteSection \/ WriteGlobal \/ ProcessOptions \/ BuildStart \/ BuildKey
GenSpec == Init /\ [][GenNext]_vars

(* ======================================================================================
   PROPERTIES
   ====================================================================================== *)
TypeOK == /\ stage \in {"file", "cmdline", "start", "build", "done"}
          /\ glob \in Choice /\ cmd \in Choice /\ inline \in Choice /\ globU \in BOOLEAN /\ cmdU \in BOOLEAN
          /\ base \in Values \cup {Default}
          /\ \A i \in 1..Len(sections) : sections[i].pat \in Patterns /\ sections[i].val \in Choice
          /\ DOMAIN cache \subseteq Pats
          /\ \A k \in DOMAIN cache : cache[k] \in Values \cup {Default}

\* the implementation's classification of section names is the documentation's
AtInit == stage = "file" /\ sections = <<>>     \* (state-independent facts are evaluated once)
ClassesAgree == AtInit => \A p \in Patterns : /\ IsUnstructuredKey(p) = DocUnstructured(p)
                                     /\ (~IsUnstructuredKey(p) /\ EndsDotStar(p)) = DocStructured(p)
\* the compiled regular expression matches what the documentation says the pattern matches
MatchAgree == AtInit => \A p \in Patterns : DocUnstructured(p) =>
                 \A m \in Modules : GlobKeyMatches(p, m) = DocMatches(p, m)
\* every structured wildcard is processed after the wildcards it inherits from
ParentsFirst == stage = "build" =>
                  \A i \in 1..Len(queue) : \A j \in 1..Len(queue) :
                      (/\ EndsDotStar(queue[i]) /\ EndsDotStar(queue[j]) /\ Len(queue[i]) < Len(queue[j])
                       /\ SubSeq(queue[j], 1, Len(queue[i]) - 1) = Front(queue[i])) => i < j
\* a finished cache entry of a concrete section is the documented value of that module
CacheAsDocumented == \A k \in DOMAIN cache : k \in Modules => cache[k] = ResolveWith(k, Unset)
\* THE PROPERTY: for every module the value used is the documented one
PrecedenceAsDocumented == stage = "done" => \A m \in Modules : Impl(m) = Resolve(m)
\* same, tabulated over the inline choices, checked as soon as the cache is complete
PrecedenceReady == Ready => \A m \in Modules : \A inl \in Choice : ImplWith(m, inl) = ResolveWith(m, inl)

(* ======================================================================================
   EMISSION for replay (Gen configs only)
   ====================================================================================== *)
RECURSIVE Dotted(_)
Dotted(p) == IF Len(p) = 1 THEN p[1] ELSE p[1] \o "." \o Dotted(Tail(p))
RECURSIVE DocTabOf(_, _), ImpTabOf(_, _)   \* one character per module of ModSeq (values are single characters)
DocTabOf(ms, inl) == IF ms = <<>> THEN "" ELSE ResolveWith(Head(ms), inl) \o DocTabOf(Tail(ms), inl)
DocTab(i, inl) == DocTabOf(ModSeq, inl)
ImpTabOf(ms, inl) == IF ms = <<>> THEN "" ELSE ImplWith(Head(ms), inl) \o ImpTabOf(Tail(ms), inl)
ImpTab(i, inl) == ImpTabOf(ModSeq, inl)
InlineSeq == <<Unset>> \o ValSeq
\* (sequences are built with \o so that TLC holds them as evaluated tuples, not lazy functions)
RECURSIVE SecList(_), KeyList(_), GlobList(_), DocTabs(_), ImpTabs(_)
SecList(i) == IF i > Len(sections) THEN <<>> ELSE <<<<Dotted(sections[i].pat), sections[i].val>>>> \o SecList(i + 1)
KeyList(ks) == IF ks = <<>> THEN <<>> ELSE <<<<Dotted(Head(ks)), cache[Head(ks)]>>>> \o KeyList(Tail(ks))
GlobList(gs) == IF gs = <<>> THEN <<>> ELSE <<Dotted(Head(gs))>> \o GlobList(Tail(gs))
DocTabs(j) == IF j > Len(InlineSeq) THEN <<>> ELSE <<DocTab(1, InlineSeq[j])>> \o DocTabs(j + 1)
ImpTabs(j) == IF j > Len(InlineSeq) THEN <<>> ELSE <<ImpTab(1, InlineSeq[j])>> \o ImpTabs(j + 1)
Record ==
  [s |-> SecList(1), g |-> glob, c |-> cmd, gu |-> globU, cu |-> cmdU, b |-> base,
   k |-> KeyList(WildcardKeys \o ConcreteKeys), gl |-> GlobList(globs),
   doc |-> DocTabs(1), imp |-> ImpTabs(1)]
Emit == Ready => PrintT(<<"CFG", ToJson(Record)>>)
=============================================================================
