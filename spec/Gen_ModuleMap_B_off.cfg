SPECIFICATION Spec
CONSTANTS
  Universe <- UnivB
  MaxFiles = 8
  Names <- AllNames
  Configs <- ConfigsNsOff
  ShadowRule = "asis"
INVARIANT TypeOK
INVARIANT RoundTrip
INVARIANT RoundTripFind
INVARIANT FindInvertsCrawl
INVARIANT OrderIndependenceModuloShadow
INVARIANT DirVersusFilesModuloShadow
INVARIANT DirVersusPackageModuloShadow
INVARIANT Emit
