SPECIFICATION Spec
CONSTANT MaxMinor = 15
INVARIANT Emit
INVARIANT EmitTargets
