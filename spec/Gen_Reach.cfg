SPECIFICATION Spec
CONSTANTS
  MaxMinor = 15
  FiveTuple = TRUE
INVARIANT Emit
INVARIANT EmitTargets
