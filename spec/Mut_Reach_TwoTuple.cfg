SPECIFICATION Spec
CONSTANTS
  MaxMinor = 15
  FiveTuple = FALSE
INVARIANT WholeNeverEqualsShort
