------------------------------ MODULE Daemon ------------------------------
(* dmypy's check / recheck served by fine-grained increments (dmypy_server.Server.check,
   fine_grained_increment_follow_imports, server/update.py FineGrainedBuildManager.update), at the
   level of the protocol between file changes, the module graph and the blocker state:

     Edit                 the user changes / deletes / creates a file (logical clock: always seen)
     FindChanged          fswatcher.find_changed + the blocker carried over from the last update
     Process              update_one on the next changed module reachable from the roots:
                            syntax error  -> BlockedUpdate: the module is remembered as `blocked`, the
                                             remaining changed modules as `stale`; the response is the blocker
                            otherwise     -> NormalUpdate: the module's content is now known; dependants
                                             are re-checked through the (complete) fine-grained dependencies
     FollowNew            a module that became importable (created, or newly imported) joins the graph
     DeleteUnreached      modules of the graph not reached from the roots are deleted from the build
     Respond              messages + status

   What "reached" means is the mechanism under test: the walk follows State.dependencies, which
   besides the imports may hold INDIRECT dependencies (a uses b.f re-exported from c => a lists c).
   FollowIndirect = TRUE is the behaviour before the repair (a module nothing imports stays in the
   build); FALSE is the code as it is now (imports only, as load_graph does).

   Contents (catalogue D of harness/daemon.py):
     a \in {"use","nouse"}   b \in {"reexport","infer","internal","noimport"}
     c \in {[iface,err] , "bad" (syntax error), "absent"}
*)
EXTENDS Naturals, Sequences, FiniteSets, TLC, Json
CONSTANTS MaxEdits, MaxRequests, FollowIndirect, Follow   \* Follow: import following on (only a listed) / off (all files listed)
Mods == {"a", "b", "c"}
\* every content is a record [k, iface, err] so that contents of different modules are comparable
V(k) == [k |-> k, iface |-> 0, err |-> 0]
CVals == {[k |-> "ok", iface |-> i, err |-> e] : i \in 0..1, e \in 0..1} \cup {V("bad"), V("absent")}
BVals == {V("reexport"), V("infer"), V("internal"), V("noimport")}
AVals == {V("use"), V("nouse")}
NoneV == V("none")
VARIABLES fs, graph, known, indirect, blocked, stale, pc, changed, seen, resp, edits, reqs, h
vars == <<fs, graph, known, indirect, blocked, stale, pc, changed, seen, resp, edits, reqs, h>>
mcview == <<fs, graph, known, indirect, blocked, stale, pc, changed, seen, resp, edits, reqs>>

IsRec(c) == c.k = "ok"
\* ------------------------------------------------------------------ what a fresh full check reports
\* (w: contents as a record [a, b, c]; g: the modules that are part of the build)
BuildOf(w) == {"a", "b"} \cup (IF (w.b.k # "noimport" \/ ~Follow) /\ w.c.k # "absent" THEN {"c"} ELSE {})
Resolved(w, g) == IF "c" \notin g \/ ~IsRec(w.c) THEN 0
                  ELSE IF w.b.k = "reexport" THEN w.c.iface ELSE IF w.b.k = "infer" THEN w.c.iface ELSE 0
Errs(w, g) == (IF "c" \in g /\ IsRec(w.c) /\ w.c.err = 1 THEN {"c"} ELSE {})
         \cup (IF w.b.k = "internal" /\ "c" \in g /\ IsRec(w.c) /\ w.c.iface = 1 THEN {"b"} ELSE {})
         \cup (IF w.b.k # "noimport" /\ "c" \notin g THEN {"b"} ELSE {})            \* import-not-found
         \cup (IF w.a.k = "use" /\ Resolved(w, g) = 1 THEN {"a"} ELSE {})
Report(w, g) == IF "c" \in g /\ w.c.k = "bad" THEN [status |-> 2, errs |-> {"c"}]
                ELSE [status |-> IF Errs(w, g) = {} THEN 0 ELSE 1, errs |-> Errs(w, g)]
Fresh(w) == Report(w, BuildOf(w))

Init == /\ fs = [a |-> V("use"), b |-> V("reexport"), c |-> [k |-> "ok", iface |-> 0, err |-> 0]]
        /\ graph = {} /\ known = [m \in Mods |-> NoneV] /\ indirect = FALSE
        /\ blocked = "none" /\ stale = {} /\ pc = "idle" /\ changed = {} /\ seen = {}
        /\ resp = [status |-> 9, errs |-> {}] /\ edits = 0 /\ reqs = 0 /\ h = <<>>

Edit == /\ pc = "idle" /\ edits < MaxEdits /\ reqs > 0
        /\ \E m \in Mods : \E v \in (IF m = "a" THEN AVals ELSE IF m = "b" THEN BVals ELSE CVals) :
             /\ v # fs[m] /\ fs' = [fs EXCEPT ![m] = v]
             /\ h' = Append(h, [ev |-> "edit", mod |-> m, v |-> ToJson(v), status |-> 0, errs |-> {}])
        /\ edits' = edits + 1
        /\ UNCHANGED <<graph, known, indirect, blocked, stale, pc, changed, seen, resp, reqs>>

\* ---- a request
Start == /\ pc = "idle" /\ reqs < MaxRequests /\ reqs' = reqs + 1
         /\ IF graph = {}
            THEN pc' = "initial" /\ UNCHANGED <<changed, seen>>        \* no fine-grained manager yet: a full build
            ELSE /\ pc' = "process" /\ seen' = {}
                 /\ changed' = {m \in graph : known[m] # fs[m]} \cup stale \cup (IF blocked = "none" THEN {} ELSE {blocked})
         /\ UNCHANGED <<fs, graph, known, indirect, blocked, stale, resp, edits, h>>
\* initialize_fine_grained: a full build; a blocker leaves the daemon without a manager
Initial == /\ pc = "initial"
           /\ IF Fresh(fs).status = 2
              THEN UNCHANGED <<graph, known, indirect>>
              ELSE /\ graph' = BuildOf(fs) /\ known' = [m \in Mods |-> IF m \in BuildOf(fs) THEN fs[m] ELSE NoneV]
                   /\ indirect' = (fs.a.k = "use" /\ fs.b.k = "reexport" /\ "c" \in BuildOf(fs))
           /\ resp' = Fresh(fs) /\ pc' = "respond"
           /\ UNCHANGED <<fs, blocked, stale, changed, seen, edits, reqs, h>>
\* the dependencies the walk follows from module m (as the daemon knows them)
WalkDeps(m) == IF m = "a" THEN {"b"} \cup (IF FollowIndirect /\ indirect THEN {"c"} ELSE {})
               ELSE IF m = "b" THEN (IF known["b"].k \notin {"noimport", "none"} THEN {"c"} ELSE {})
               ELSE {}
\* without import following every listed file is a root, and so is every file that was removed since
Roots == IF Follow THEN {"a"} ELSE {m \in Mods : fs[m].k # "absent"} \cup graph
\* next module to look at: a root or a dependency of a seen, unchanged module (the walk stops at changed ones)
Frontier == (Roots \cup UNION {WalkDeps(m) : m \in seen \ changed}) \ seen
Process == /\ pc = "process"
           /\ IF Frontier # {}
              THEN \E m \in Frontier :
                     /\ seen' = seen \cup {m}
                     /\ IF m \in changed \/ (m \notin graph /\ fs[m].k # "absent")
                        THEN IF fs[m].k = "bad"
                             THEN /\ blocked' = m /\ stale' = changed \ {m}                   \* BlockedUpdate
                                  /\ resp' = [status |-> 2, errs |-> {m}] /\ pc' = "respond"
                                  /\ UNCHANGED <<graph, known, indirect, changed>>
                             ELSE /\ known' = [known EXCEPT ![m] = fs[m]]                      \* NormalUpdate
                                  /\ graph' = IF fs[m].k = "absent" THEN graph \ {m} ELSE graph \cup {m}
                                  /\ changed' = changed \ {m}
                                  /\ blocked' = IF blocked = m THEN "none" ELSE blocked
                                  /\ stale' = stale \ {m}
                                  \* a's dependency list (incl. the indirect one on c) is only recomputed when a itself is re-processed
                                  /\ indirect' = IF m = "a" THEN (fs.a.k = "use" /\ known["b"].k = "reexport" /\ "c" \in graph /\ IsRec(known["c"]))
                                                 ELSE indirect
                                  /\ UNCHANGED <<resp, pc>>
                        ELSE UNCHANGED <<graph, known, indirect, blocked, stale, changed, resp, pc>>
              ELSE /\ pc' = "delete" /\ UNCHANGED <<graph, known, indirect, blocked, stale, changed, seen, resp>>
           /\ UNCHANGED <<fs, edits, reqs, h>>
\* modules of the graph that were not reached are deleted from the build; the view is recomputed
DeleteUnreached ==
   /\ pc = "delete"
   /\ LET g2 == IF Follow THEN graph \cap seen ELSE graph
          w == [a |-> known["a"], b |-> known["b"], c |-> IF "c" \in g2 THEN known["c"] ELSE V("absent")]
      IN /\ graph' = g2
         /\ known' = [m \in Mods |-> IF m \in g2 THEN known[m] ELSE NoneV]
         /\ UNCHANGED indirect
         /\ resp' = Report(w, g2)
   /\ pc' = "respond"
   /\ UNCHANGED <<fs, blocked, stale, changed, seen, edits, reqs, h>>
Respond == /\ pc = "respond" /\ pc' = "idle"
           /\ h' = Append(h, [ev |-> "request", mod |-> "", v |-> "", status |-> resp.status, errs |-> resp.errs])
           /\ UNCHANGED <<fs, graph, known, indirect, blocked, stale, changed, seen, resp, edits, reqs>>
Next == Edit \/ Start \/ Initial \/ Process \/ DeleteUnreached \/ Respond
Spec == Init /\ [][Next]_vars

\* C03: every response is what a fresh, non-incremental check of the files as they are reports
RespondsLikeFresh == pc = "respond" => (resp.status = Fresh(fs).status /\ resp.errs = Fresh(fs).errs)
\* after an unblocked update the graph is exactly the set of modules a fresh build would contain
GraphIsBuild == (pc = "respond" /\ resp.status # 2 /\ graph # {}) => graph = BuildOf(fs)
Complete == pc = "idle" /\ reqs = MaxRequests
Emit == Complete => PrintT(<<"HIST", ToJson(h)>>)
===========================================================================
