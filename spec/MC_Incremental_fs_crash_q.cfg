SPECIFICATION Spec
CONSTANTS
  MaxRuns = 3
  MaxEdits = 2
  MaxTouch = 0
  Sqlite = FALSE
  WithCrash = TRUE
  MaxFail = 0
  RemoveExFirst = TRUE
  FreshOldHash = TRUE
  DropMetaOnFail = TRUE
  UseIndirect = TRUE
  WithAbsent = FALSE
  CheckDepList = TRUE
VIEW mcview
INVARIANT OutEqualsCold
INVARIANT FreshIsRight
INVARIANT FsNoPending
INVARIANT TypeOK
PROPERTY StoreQuietWhenIdle
