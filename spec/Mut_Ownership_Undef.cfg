SPECIFICATION Spec
CONSTANT FSel <- SampleUndef
INVARIANT NoLeak
INVARIANT NoDoubleRelease
INVARIANT NoUndefRead
INVARIANT NoUseAfterRelease
INVARIANT Classified
