---- MODULE MC_ArgBind ----
EXTENDS ArgBind
====
