---- MODULE MC_ArgBind ----
EXTENDS ArgBind
UnknownOn == TRUE
====
