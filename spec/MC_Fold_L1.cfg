SPECIFICATION Spec
CONSTANTS
  Toks <- AllToks
  BinOps <- AllBin
  UnOps <- AllUn
  MaxDepth = 1
  FloorDiv = TRUE
INVARIANT DivModLaw
INVARIANT BitLaw
INVARIANT ShiftLaw
INVARIANT RaisePropagates
