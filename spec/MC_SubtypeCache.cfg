SPECIFICATION Spec
CONSTANTS
  KeyOf <- BuildSubtypeKind
  Ask = "single"
  MaxQ = 2
  MaxR = 2
VIEW view
INVARIANT AnswerIsTruth
INVARIANT CacheSound
INVARIANT Disjoint
INVARIANT OnlyRecordable
