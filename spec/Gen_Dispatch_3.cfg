SPECIFICATION DSpec
CONSTANTS
  N = 3
  UseBaseList = TRUE
  UseProps = TRUE
INVARIANT EmitD
