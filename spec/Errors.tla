------------------------------ MODULE Errors ------------------------------
(* mypy/errors.py `Errors`: which reported diagnostics survive `# type: ignore` comments and
   disabled error codes, which extra diagnostics the suppression machinery itself produces,
   how the survivors are rendered, and the process exit status (mypy/main.py).

   One operator per step of the real code (so that a run of the real object can be replayed
   event by event):
     StepReport   Errors.report -> add_error_info -> is_ignored_error / is_error_code_enabled
                  -> _add_error_info -> note_for_info ("not covered" / "code changed" / docs link)
     StepFinish   build.State.generate_unused_ignore_notes + generate_ignore_without_code_notes
                  (their gating) -> Errors.generate_unused_ignore_errors /
                  generate_ignore_without_code_errors
     Render       Errors.file_messages: sort_messages, sort_within_context, remove_duplicates
     Exit         main.main: 0 / 1 / 2

   A configuration `cfg` maps every file to
     [hasMap, ign, ignoreAll, skipped, enabled, disabled, warnUnused, links]
   `ign` is a function line -> [on, codes] (codes = <<>> is a bare ignore); `enabled` / `disabled`
   are the per-module option sets *after* Options.process_error_codes.
   An event is [t |-> "report", f, r] or [t |-> "finish", f, r |-> NoReport].
   A report r = [line, col, el, ec, span, code, sev, blocker, once, msg, par, ctx]; `par` is the
   index (in the event sequence) of the report whose ErrorInfo was passed as parent_error, 0 if none.
   Messages are records [k, id, code, codes, hints]; k = "m" is an opaque reported text `id`.

   The machine is deterministic: its state is a function of (cfg, events); the suppression
   properties of C13 relate the runs of two configurations over the same events and are
   therefore written as operators over (cfg, cfg', events) and checked in every final state.
*)
EXTENDS Naturals, Sequences, FiniteSets, TLC, Json

CONSTANTS Codes,        \* ErrorCode objects (two objects may share a name: CALL_ARG and CALL_ARG_MISC are both "call-arg")
          NameOf,       \* [Codes -> name]                ErrorCode.code: what ignore lists, option sets and output show
          SubOf,        \* [Codes -> name \cup {"none"}]   ErrorCode.sub_code_of.code
          DefaultOn,    \* code objects with default_enabled
          Renamed,      \* [Codes -> name \cup {"none"}]   errors.original_error_codes (looked up by name)
          HideLink,     \* names in errors.HIDE_LINK_CODES
          Slots,        \* sequence of <<file, line>>: where the generator may put ignore comments
          IgnChoices,   \* set of [on, codes] values the generator may choose for a slot
          SkipChoices,  \* set of sets of <<file, line>>: skipped_lines alternatives
          CodeCfgs,     \* set of [enabled, disabled]
          FlagCfgs,     \* set of [hasMap, ignoreAll, warnUnused, links]
          Alphabet,     \* set of report templates (see Instantiate)
          MaxReports,
          \* specification-level mutants (TRUE = the code as it is)
          DisabledLeavesUnused,   \* an error of a disabled code does not mark the ignore used
          SubCodesMatch,          \* ignore[c] also matches sub-codes of c
          BlockersBypass,         \* blockers are never ignored
          \* TRUE: OutputExactness is claimed only for report sequences in which equal texts on one line carry one code
          \* (FALSE documents the defect of the rule: see Finding_Errors_CrossCodeDup.cfg)
          AssumeNoCrossCodeDups,
          \* TRUE: a note attached to an error is reported with the error's origin (messages.py passes the parent's
          \* context and origin_context); FALSE (specification-level mutant): only with the line it is reported on
          NotesInheritOrigin

None == "none"
Range(s) == {s[i] : i \in 1..Len(s)}
NoIgn == [on |-> FALSE, codes |-> <<>>]
NoReport == [line |-> 0, col |-> 0, el |-> 0, ec |-> 0, span |-> <<>>, code |-> None, sev |-> "note",
             blocker |-> FALSE, once |-> FALSE, msg |-> [k |-> "none", id |-> 0, code |-> "", codes |-> <<>>, hints |-> {}],
             par |-> 0, ctx |-> 0]
Msg(k, id, code, codes, hints) == [k |-> k, id |-> id, code |-> code, codes |-> codes, hints |-> hints]

\* ------------------------------------------------------------------ code enabling
\* Errors.is_error_code_enabled
Enabled(fc, c) ==
  IF NameOf[c] \in fc.disabled THEN FALSE
  ELSE IF NameOf[c] \in fc.enabled THEN TRUE
  ELSE IF SubOf[c] # None /\ SubOf[c] \in fc.disabled THEN FALSE
  ELSE c \in DefaultOn

\* Options.process_error_codes: "--enable-error-code ... will override disabled error codes from --disable-error-code"
CodeSets(baseEnabled, baseDisabled, addDisabled, addEnabled) ==
  [enabled |-> baseEnabled \cup addEnabled,
   disabled |-> (baseDisabled \cup addDisabled) \ (baseEnabled \cup addEnabled)]

\* ------------------------------------------------------------------ ignore matching
IgnAt(fc, l) == IF l \in DOMAIN fc.ign THEN fc.ign[l] ELSE NoIgn
CodeListed(c, ks) == \/ NameOf[c] \in Range(ks)
                     \/ SubCodesMatch /\ SubOf[c] # None /\ SubOf[c] \in Range(ks)
\* Errors.is_ignored_error
IsIgnoredAt(fc, l, r) ==
  IF r.blocker /\ BlockersBypass THEN FALSE
  ELSE IF r.code # None /\ ~Enabled(fc, r.code) THEN TRUE
  ELSE IF ~IgnAt(fc, l).on THEN FALSE
  ELSE IF IgnAt(fc, l).codes = <<>> THEN TRUE
  ELSE IF r.code # None THEN CodeListed(r.code, IgnAt(fc, l).codes)
  ELSE FALSE
\* the loop `for scope_line in lines` of add_error_info: index of the first span line that ignores r
FirstIgnored(fc, r) ==
  LET S == {k \in 1..Len(r.span) : IsIgnoredAt(fc, r.span[k], r)}
  IN IF S = {} THEN 0 ELSE CHOOSE k \in S : \A j \in S : k <= j
EffCode(r) == IF r.code = None THEN "misc" ELSE r.code      \* the object: `info.code or codes.MISC`
CodeName(c) == IF c = None THEN None ELSE NameOf[c]

\* ------------------------------------------------------------------ recorded items (ErrorInfo)
Item(kind, src, r, sev, code, msg, once, par, pri) ==
  [id |-> <<kind, src, IF src = 0 THEN r.line ELSE 0>>, kind |-> kind, src |-> src, line |-> r.line, col |-> r.col, el |-> r.el, ec |-> r.ec,
   sev |-> sev, code |-> code, msg |-> msg, blocker |-> (kind = "rep" /\ r.blocker), par |-> par, pri |-> pri, ctx |-> r.ctx]
RepItem(r, idx) == Item("rep", idx, r, r.sev, CodeName(r.code), r.msg, r.once, r.par, 0)
NotCovMsg(r, ks) ==
  IF Renamed[r.code] # None /\ Renamed[r.code] \in Range(ks)
  THEN Msg("changed", 0, NameOf[r.code], <<>>, {})
  ELSE Msg("notcov", 0, NameOf[r.code], ks, {})
NotCovItem(r, idx, ks) == Item("notcov", idx, r, "note", None, NotCovMsg(r, ks), FALSE, 0, 0)
LinkMsg(c) == Msg("link", 0, NameOf[c], <<>>, {})
LinkItem(r, idx) == Item("link", idx, r, "note", NameOf[r.code], LinkMsg(r.code), TRUE, 0, 20)
\* report_simple_error: column -1 (0 here: columns are shifted by one), the import context of the moment
GenRec(l, ctx) == [NoReport EXCEPT !.line = l, !.col = 0, !.el = l, !.ec = 0, !.ctx = ctx]

InitState(files) == [infos |-> [f \in files |-> <<>>], used |-> {}, once |-> {}]

\* ------------------------------------------------------------------ Errors.add_error_info
StepReport(st, fc, f, r, idx) ==
  LET k == IF (~r.blocker \/ ~BlockersBypass) /\ fc.hasMap THEN FirstIgnored(fc, r) ELSE 0
  IN
  IF k # 0 THEN
       IF Enabled(fc, EffCode(r)) \/ ~DisabledLeavesUnused
       THEN [st EXCEPT !.used = @ \cup {<<f, r.span[k], NameOf[EffCode(r)]>>}]
       ELSE st
  ELSE IF ~r.blocker /\ fc.ignoreAll THEN st
  ELSE IF r.once /\ r.msg \in st.once THEN st
  ELSE
    LET s1 == [st EXCEPT !.once = IF r.once THEN @ \cup {r.msg} ELSE @,
                         !.infos[f] = Append(@, RepItem(r, idx))]
        ic == IF fc.hasMap THEN IgnAt(fc, r.line) ELSE NoIgn
        s2 == IF ic.on /\ ic.codes # <<>> /\ r.code # None
              THEN [s1 EXCEPT !.infos[f] = Append(@, NotCovItem(r, idx, ic.codes))]
              ELSE s1
    IN IF fc.links /\ r.code # None /\ NameOf[r.code] \notin HideLink /\ LinkMsg(r.code) \notin s2.once
       THEN [s2 EXCEPT !.once = @ \cup {LinkMsg(r.code)}, !.infos[f] = Append(@, LinkItem(r, idx))]
       ELSE s2

\* ------------------------------------------------------------------ end of file: generated diagnostics
RECURSIVE SortedSeq(_)
SortedSeq(S) == IF S = {} THEN <<>>
                ELSE LET m == CHOOSE x \in S : \A y \in S : x <= y IN <<m>> \o SortedSeq(S \ {m})
UsedAt(st, f, l) == {NameOf[c] : c \in {x \in Codes : <<f, l, NameOf[x]>> \in st.used}}
SubMap(c) == {NameOf[x] : x \in {y \in Codes : SubOf[y] = c}}       \* errorcodes.sub_code_map[c]
UnusedCodesAt(st, fc, f, l) == SelectSeq(fc.ign[l].codes, LAMBDA c : c \notin UsedAt(st, f, l))
\* Errors.generate_unused_ignore_errors, one line
UnusedNeeded(st, fc, f, l) ==
  /\ fc.ign[l].on
  /\ <<f, l>> \notin fc.skipped
  /\ "unused-ignore" \notin Range(fc.ign[l].codes)
  /\ ~(fc.ign[l].codes = <<>> /\ UsedAt(st, f, l) # {})
  /\ ~(fc.ign[l].codes # <<>> /\ UnusedCodesAt(st, fc, f, l) = <<>>)
UnusedMsg(st, fc, f, l) ==
  LET un == UnusedCodesAt(st, fc, f, l)
      shown == IF Len(fc.ign[l].codes) > 1 THEN un ELSE <<>>
      hints == {h \in {[c |-> c, n |-> UsedAt(st, f, l) \cap SubMap(c)] : c \in Range(un)} : h.n # {}}
  IN Msg("unused", 0, "", shown, hints)
UnusedItem(st, fc, f, l, ctx) == Item("unused", 0, GenRec(l, ctx), "error", "unused-ignore", UnusedMsg(st, fc, f, l), FALSE, 0, 0)
\* Errors.generate_ignore_without_code_errors, one line
NoCodeNeeded(st, fc, f, l) ==
  /\ fc.ign[l].on
  /\ <<f, l>> \notin fc.skipped
  /\ fc.ign[l].codes = <<>>
  /\ ~(fc.warnUnused /\ UsedAt(st, f, l) = {})
NoCodeItem(st, fc, f, l, ctx) ==
  Item("nocode", 0, GenRec(l, ctx), "error", "ignore-without-code",
       Msg("nocode", 0, "", <<>>, {[c |-> "", n |-> UsedAt(st, f, l)]}), FALSE, 0, 0)
\* build.State.generate_unused_ignore_notes / generate_ignore_without_code_notes
GateUnused(fc) == (fc.warnUnused \/ "unused-ignore" \in fc.enabled) /\ "unused-ignore" \notin fc.disabled
GateNoCode(fc) == Enabled(fc, "ignore-without-code")
RECURSIVE AppendWhere(_, _, _, _, _, _, _)
AppendWhere(seq, ls, st, fc, f, which, ctx) ==
  IF ls = <<>> THEN seq
  ELSE LET l == Head(ls)
           s1 == IF which = "unused" /\ UnusedNeeded(st, fc, f, l) THEN Append(seq, UnusedItem(st, fc, f, l, ctx))
                 ELSE IF which = "nocode" /\ NoCodeNeeded(st, fc, f, l) THEN Append(seq, NoCodeItem(st, fc, f, l, ctx))
                 ELSE seq
       IN AppendWhere(s1, Tail(ls), st, fc, f, which, ctx)
StepFinish(st, fc, f, ctx) ==
  IF ~fc.hasMap \/ fc.ignoreAll THEN st
  ELSE LET ls == SortedSeq(DOMAIN fc.ign)
           a == IF GateUnused(fc) THEN AppendWhere(st.infos[f], ls, st, fc, f, "unused", ctx) ELSE st.infos[f]
           b == IF GateNoCode(fc) THEN AppendWhere(a, ls, st, fc, f, "nocode", ctx) ELSE a
       IN [st EXCEPT !.infos[f] = b]

Step(st, cfg, e, idx) ==
  IF e.t = "report" THEN StepReport(st, cfg[e.f], e.f, e.r, idx) ELSE StepFinish(st, cfg[e.f], e.f, e.r.ctx)
RECURSIVE RunFrom(_, _, _, _)
RunFrom(st, cfg, ev, i) == IF i > Len(ev) THEN st ELSE RunFrom(Step(st, cfg, ev[i], i), cfg, ev, i + 1)
Run(cfg, ev) == RunFrom(InitState(DOMAIN cfg), cfg, ev, 1)

\* ------------------------------------------------------------------ Errors.file_messages
\* stable sort of the index range n..m by integer key: position = number of elements that go before
SortIdx(n, m, key) ==
  LET rank == [i \in n..m |-> Cardinality({j \in n..m : key[j] < key[i] \/ (key[j] = key[i] /\ j < i)})]
  IN [k \in 1..(m - n + 1) |-> CHOOSE i \in n..m : rank[i] = k - 1]
RECURSIVE RunEnd(_, _)
RunEnd(rk, i) == IF i < Len(rk) /\ rk[i + 1] = rk[i] THEN RunEnd(rk, i + 1) ELSE i
\* sort every maximal run of equal run-key by sort-key
RECURSIVE SortRuns(_, _, _, _)
SortRuns(s, rk, sk, i) ==
  IF i > Len(s) THEN <<>>
  ELSE LET j == RunEnd(rk, i)
           idx == IF j = i THEN <<i>> ELSE SortIdx(i, j, sk)
       IN [k \in 1..Len(idx) |-> s[idx[k]]] \o SortRuns(s, rk, sk, j + 1)
PosKey(x) == x.line * 16384 + x.col         \* (line, column); columns are shifted by one to be >= 0 (and < 16384)
SortMessages(s) ==
  LET a == SortRuns(s, [i \in 1..Len(s) |-> s[i].ctx], [i \in 1..Len(s) |-> PosKey(s[i])], 1)
  IN SortRuns(a, [i \in 1..Len(a) |-> <<a[i].line, a[i].col, a[i].el, a[i].ec, a[i].code>>],
              [i \in 1..Len(a) |-> a[i].pri], 1)
\* remove_duplicates: first pass keeps notes with a parent and first occurrences of (line, severity, message)
RECURSIVE DedupPass(_, _, _, _, _)
DedupPass(s, i, kept, seen, removed) ==
  IF i > Len(s) THEN [kept |-> kept, removed |-> removed]
  ELSE LET x == s[i] key == <<x.line, x.sev, x.msg>> IN
       IF x.par # 0 THEN DedupPass(s, i + 1, Append(kept, x), seen, removed)
       ELSE IF key \notin seen THEN DedupPass(s, i + 1, Append(kept, x), seen \cup {key}, removed)
       ELSE DedupPass(s, i + 1, kept, seen, removed \cup {x.id})
RemoveDuplicates(s) ==
  LET p == DedupPass(s, 1, <<>>, {}, {})
  IN SelectSeq(p.kept, LAMBDA x : x.par = 0 \/ <<"rep", x.par, 0>> \notin p.removed)
RenderFile(infos) == RemoveDuplicates(SortMessages(infos))
OutItem(x) == [line |-> x.line, sev |-> x.sev, code |-> x.code, msg |-> x.msg]
Out(st, f) == LET r == RenderFile(st.infos[f]) IN [i \in 1..Len(r) |-> OutItem(r[i])]

\* ------------------------------------------------------------------ main.main exit status
FileOut(st) == [f \in DOMAIN st.infos |-> Out(st, f)]
Blocked(st) == \E f \in DOMAIN st.infos : \E i \in 1..Len(st.infos[f]) : st.infos[f][i].blocker
AnyErrorIn(fo) == \E f \in DOMAIN fo : \E i \in 1..Len(fo[f]) : fo[f][i].sev = "error"
ExitOf(st, fo) == IF ~AnyErrorIn(fo) THEN 0 ELSE IF Blocked(st) THEN 2 ELSE 1
Exit(st) == ExitOf(st, FileOut(st))

\* ================================================================== properties of the rule
Reps(st, f) == {st.infos[f][i].src : i \in {j \in 1..Len(st.infos[f]) : st.infos[f][j].kind = "rep"}}
Derived(st, f) == {st.infos[f][i] : i \in {j \in 1..Len(st.infos[f]) : st.infos[f][j].kind \in {"notcov", "link"}}}
Generated(st, f) == {st.infos[f][i] : i \in {j \in 1..Len(st.infos[f]) : st.infos[f][j].kind \in {"unused", "nocode"}}}
ReportIdx(ev, f) == {i \in 1..Len(ev) : ev[i].t = "report" /\ ev[i].f = f}
\* a once-only message that was displayed at a suppressed report may re-surface at the next report carrying it
OnceMoved(ev, gone, j) == ev[j].r.once /\ \E i \in gone : i < j /\ ev[i].r.once /\ ev[i].r.msg = ev[j].r.msg
RestrictTo(seq, keep) == SelectSeq(seq, LAMBDA x : x.kind = "rep" /\ x.src \in keep)

\* the ignore K at (f, L) matches report r (it originates on the line and carries a listed code)
CodeMatch(c, ks) == ks = <<>> \/ (c # None /\ (NameOf[c] \in Range(ks) \/ (SubOf[c] # None /\ SubOf[c] \in Range(ks))))
\* Exactness: cfgV = cfgB plus one ignore comment at (f, L) with codes K
ExactIgnore(cfgB, cfgV, f, L, ev) ==
  LET B == Run(cfgB, ev)
      V == Run(cfgV, ev)
      K == cfgV[f].ign[L].codes
      matched == {i \in Reps(B, f) : ~ev[i].r.blocker /\ L \in Range(ev[i].r.span) /\ CodeMatch(ev[i].r.code, K)}
      \* matched reports are removed: those displayed in B, and the once-only ones that B had dropped anyway
      goneAll == {i \in ReportIdx(ev, f) : ~ev[i].r.blocker /\ L \in Range(ev[i].r.span) /\ CodeMatch(ev[i].r.code, K)}
  IN
  /\ \A g \in DOMAIN cfgB :
       LET rb == Reps(B, g)
           rv == Reps(V, g)
           db == Derived(B, g)
           dv == Derived(V, g)
           mg == IF g = f THEN matched ELSE {}
       IN
       /\ rv \cap mg = {}                                                  \* removes the matched errors and notes
       /\ rb \ mg \subseteq rv                                             \* and nothing else
       /\ \A j \in rv \ rb : OnceMoved(ev, goneAll, j)                     \* adds nothing (modulo once-only)
       /\ RestrictTo(V.infos[g], rb) = RestrictTo(B.infos[g], rv)          \* order kept
       \* derived notes: those of surviving reports stay, those of removed reports go; new ones are exactly the
       \* "not covered" notes of surviving reports on line L (K coded) and docs links that moved
       /\ \A d \in db : d.src \in rv => (d \in dv \/ d.kind = "link")
       /\ \A d \in dv : d.src \in rv
       /\ \A d \in dv \ db :
            \/ d.kind = "notcov" /\ g = f /\ d.line = L /\ K # <<>> /\ (~CodeMatch(ev[d.src].r.code, K) \/ ev[d.src].r.blocker)
            \/ d.kind = "link"
            \/ d.src \notin rb                   \* the notes of a once-only report that moved here
       /\ g = f => \A j \in rv : (ev[j].r.line = L /\ K # <<>> /\ ev[j].r.code # None)
                                  => \E d \in dv : d.kind = "notcov" /\ d.src = j
  \* blockers are untouched
  /\ LET rb == Reps(B, f) rv == Reps(V, f) IN
     \A i \in ReportIdx(ev, f) : ev[i].r.blocker => (i \in rb <=> i \in rv)

\* DisableExact: cfgV = cfgB with code c additionally disabled (c not explicitly enabled)
CarriesDisabled(c, fcV, code) == code # None /\ ~Enabled(fcV, code) /\ (NameOf[code] = c \/ SubOf[code] = c)
ExactDisable(cfgB, cfgV, c, ev) ==
  LET B == Run(cfgB, ev)
      V == Run(cfgV, ev)
      GoneIn(g) == {i \in ReportIdx(ev, g) : ~ev[i].r.blocker /\ cfgV[g].hasMap /\ CarriesDisabled(c, cfgV[g], ev[i].r.code)}
      goneEverywhere == UNION {GoneIn(g) : g \in DOMAIN cfgB}
  IN \A g \in DOMAIN cfgB :
       LET rb == Reps(B, g)
           rv == Reps(V, g)
           db == Derived(B, g)
           dv == Derived(V, g)
           gone == rb \cap GoneIn(g)
       IN
       /\ rv \cap gone = {}
       /\ rb \ gone \subseteq rv
       /\ \A j \in rv \ rb : OnceMoved(ev, goneEverywhere, j)
       /\ \A d \in db : d.src \in rv => (d \in dv \/ d.kind = "link")
       /\ \A d \in dv : d.src \in rv /\ (d \in db \/ d.kind = "link" \/ d.src \notin rb)
       /\ \A x \in Generated(V, g) : x.code # c
       /\ c \notin {"unused-ignore", "ignore-without-code"} =>
             \A x \in Generated(B, g) : x.kind = "unused" => \E y \in Generated(V, g) : y.line = x.line /\ y.kind = "unused"

\* ---- attached notes.  A note is attached to the error-severity report i when it names it as parent_error, or (the
\* older convention of messages.py) when it is reported after it, before the next error of the file, with the same
\* code -- unless that code is the default `misc`, which also every free-standing note (reveal_type ...) carries.
AttachedTo(ev, i) ==
  {j \in (i + 1)..Len(ev) :
     /\ ev[j].t = "report" /\ ev[j].f = ev[i].f /\ ev[j].r.sev = "note"
     /\ \/ ev[j].r.par = i
        \/ /\ ev[j].r.par = 0
           /\ ev[j].r.code # None /\ ev[i].r.code # None /\ NameOf[ev[j].r.code] = NameOf[ev[i].r.code]
           /\ NameOf[ev[j].r.code] # "misc"
           /\ \A k \in (i + 1)..(j - 1) : ~(ev[k].t = "report" /\ ev[k].f = ev[i].f /\ ev[k].r.sev = "error")}
ErrorIdx(ev) == {i \in 1..Len(ev) : ev[i].t = "report" /\ ev[i].r.sev = "error" /\ ~ev[i].r.blocker}
\* An ignore on ANY line of an error's origin span that removes the error must remove its attached notes: the
\* pairs <<error, note>> for which the ignore (L, K) at f removed the error and left the note
NotesLeftBehind(cfgB, cfgV, f, L, ev) ==
  LET B == Run(cfgB, ev)
      V == Run(cfgV, ev)
      K == cfgV[f].ign[L].codes
      rb == Reps(B, f)
      rv == Reps(V, f)
      matched == {i \in rb \cap ErrorIdx(ev) : L \in Range(ev[i].r.span) /\ CodeMatch(ev[i].r.code, K)}
  IN UNION {{<<i, j>> : j \in AttachedTo(ev, i) \cap rv} : i \in matched}
\* the same statement without placing anything: an attached note whose origin span misses a line of its error's
NarrowerOrigin(ev) ==
  UNION {{<<i, j>> : j \in {k \in AttachedTo(ev, i) : ~(Range(ev[i].r.span) \subseteq Range(ev[k].r.span))}} : i \in ErrorIdx(ev)}

\* Output-level exactness (DESIGN Appendix D): the error-severity diagnostics *printed* under cfgV are those printed
\* under cfgB minus removals, plus only the generated unused-ignore / ignore-without-code errors (and once-only
\* messages, which are program-level).  NewErrors is the set of offenders.
NewErrorsIn(g, sB, sV, onceMsgs) ==
  LET setB == Range(sB)
  IN {[f |-> g, o |-> sV[k]] : k \in {j \in 1..Len(sV) :
         /\ sV[j].sev = "error"
         /\ sV[j].code \notin {"unused-ignore", "ignore-without-code"}
         /\ sV[j].msg \notin onceMsgs
         /\ sV[j] \notin setB}}
NewErrors(cfgB, cfgV, ev) ==
  LET foB == FileOut(Run(cfgB, ev))
      foV == FileOut(Run(cfgV, ev))
      onceMsgs == {ev[i].r.msg : i \in {j \in 1..Len(ev) : ev[j].t = "report" /\ ev[j].r.once}}
  IN UNION {NewErrorsIn(g, foB[g], foV[g], onceMsgs) : g \in DOMAIN cfgB}
\* remove_duplicates hides a second report with the same text on the same line even when its code differs; when the
\* first is suppressed the second becomes visible.  Sequences without such pairs:
NoCrossCodeDups(ev) ==
  \A i, j \in 1..Len(ev) :
     (/\ ev[i].t = "report" /\ ev[j].t = "report" /\ ev[i].f = ev[j].f
      /\ ev[i].r.line = ev[j].r.line /\ ev[i].r.sev = ev[j].r.sev /\ ev[i].r.msg = ev[j].r.msg)
     => ev[i].r.code = ev[j].r.code

\* UnusedIff / NoCodeIff: what the ignore at (f, l) suppressed, stated without the machine
SuppressedBy(cfg, ev, f, l) ==
  {i \in ReportIdx(ev, f) :
     LET r == ev[i].r fc == cfg[f] IN
     /\ ~r.blocker /\ fc.hasMap /\ Enabled(fc, EffCode(r))
     /\ \E k \in 1..Len(r.span) : /\ r.span[k] = l /\ IgnAt(fc, l).on
                                   /\ CodeMatch(r.code, IgnAt(fc, l).codes)
                                   /\ \A j \in 1..(k - 1) : ~(IgnAt(fc, r.span[j]).on /\ CodeMatch(r.code, IgnAt(fc, r.span[j]).codes))}
SuppressedCodes(cfg, ev, f, l) == {NameOf[EffCode(ev[i].r)] : i \in SuppressedBy(cfg, ev, f, l)}
Finished(ev, f) == \E i \in 1..Len(ev) : ev[i].t = "finish" /\ ev[i].f = f
UnusedIff(cfg, ev) ==
  LET X == Run(cfg, ev) IN
  \A f \in DOMAIN cfg : Finished(ev, f) => \A l \in DOMAIN cfg[f].ign :
    LET fc == cfg[f]
        ks == fc.ign[l].codes
        sc == SuppressedCodes(cfg, ev, f, l)
        reported == \E x \in Generated(X, f) : x.kind = "unused" /\ x.line = l
        expected == /\ fc.ign[l].on /\ fc.hasMap /\ ~fc.ignoreAll /\ GateUnused(fc)
                    /\ <<f, l>> \notin fc.skipped /\ "unused-ignore" \notin Range(ks)
                    /\ IF ks = <<>> THEN sc = {} ELSE \E c \in Range(ks) : c \notin sc
    IN reported <=> expected
NoCodeIff(cfg, ev) ==
  LET X == Run(cfg, ev) IN
  \A f \in DOMAIN cfg : Finished(ev, f) => \A l \in DOMAIN cfg[f].ign :
    LET fc == cfg[f]
        reported == \E x \in Generated(X, f) : x.kind = "nocode" /\ x.line = l
        expected == /\ fc.ign[l].on /\ fc.hasMap /\ ~fc.ignoreAll /\ GateNoCode(fc)
                    /\ <<f, l>> \notin fc.skipped /\ fc.ign[l].codes = <<>>
                    /\ ~(fc.warnUnused /\ SuppressedCodes(cfg, ev, f, l) = {})
    IN reported <=> expected
\* exit status and blockers
ExitTruth(cfg, ev) ==
  LET X == Run(cfg, ev)
      fo == FileOut(X)
      x == ExitOf(X, fo)
  IN
  /\ x = 0 <=> ~AnyErrorIn(fo)
  /\ x = 2 <=> (\E i \in 1..Len(ev) : ev[i].t = "report" /\ ev[i].r.blocker)
  /\ x \in {0, 1, 2}
  /\ \A i \in 1..Len(ev) : (ev[i].t = "report" /\ ev[i].r.blocker) =>
        \E k \in 1..Len(fo[ev[i].f]) : LET o == fo[ev[i].f][k] IN
             o.line = ev[i].r.line /\ o.sev = ev[i].r.sev /\ o.msg = ev[i].r.msg

\* ================================================================== bounded generator
VARIABLES pc, cur, cfg, ev
vars == <<pc, cur, cfg, ev>>
Files == {Slots[i][1] : i \in 1..Len(Slots)}
LinesOf(f) == {Slots[i][2] : i \in {j \in 1..Len(Slots) : Slots[j][1] = f}}
DefaultFile(f) == [hasMap |-> TRUE, ign |-> [l \in LinesOf(f) |-> NoIgn], ignoreAll |-> FALSE, skipped |-> {},
                   enabled |-> {}, disabled |-> {}, warnUnused |-> FALSE, links |-> FALSE]
Init == pc = "ign" /\ cur = 1 /\ cfg = [f \in Files |-> DefaultFile(f)] /\ ev = <<>>

ChooseIgn == /\ pc = "ign" /\ cur <= Len(Slots)
             /\ \E v \in IgnChoices : cfg' = [cfg EXCEPT ![Slots[cur][1]].ign[Slots[cur][2]] = v]
             /\ cur' = cur + 1 /\ UNCHANGED <<pc, ev>>
ChooseRest == /\ pc = "ign" /\ cur > Len(Slots)
              /\ \E cc \in CodeCfgs, fl \in FlagCfgs, sk \in SkipChoices :
                   cfg' = [f \in Files |-> [cfg[f] EXCEPT !.enabled = cc.enabled, !.disabled = cc.disabled,
                                                          !.hasMap = fl.hasMap, !.ignoreAll = fl.ignoreAll,
                                                          !.warnUnused = fl.warnUnused, !.links = fl.links,
                                                          !.skipped = sk]]
              /\ pc' = "run" /\ UNCHANGED <<cur, ev>>
\* a template either stands alone or is a note attached to the latest error-severity report (messages.py passes
\* the parent's context, so line / span / code are the parent's)
LastError(f) == LET S == {i \in 1..Len(ev) : ev[i].t = "report" /\ ev[i].f = f /\ ev[i].r.sev = "error"}
                IN IF S = {} THEN 0 ELSE CHOOSE i \in S : \A j \in S : j <= i
Instantiate(t) ==
  IF t.child
  THEN LET p == ev[LastError(t.f)].r
       IN [p EXCEPT !.sev = "note", !.blocker = FALSE, !.once = t.once, !.msg = Msg("m", t.msg, "", <<>>, {}),
                    !.par = IF t.linked THEN LastError(t.f) ELSE 0,
                    !.span = IF NotesInheritOrigin THEN p.span ELSE <<p.line>>]
  ELSE [line |-> t.line, col |-> t.col, el |-> t.line, ec |-> t.col + 1, span |-> t.span, code |-> t.code, sev |-> t.sev,
        blocker |-> t.blocker, once |-> t.once, msg |-> Msg("m", t.msg, "", <<>>, {}), par |-> 0, ctx |-> 0]
Report == /\ pc = "run" /\ Len(ev) < MaxReports
          /\ \E t \in Alphabet :
               /\ t.child => (LastError(t.f) # 0 /\ ~ev[LastError(t.f)].r.blocker)
               /\ ev' = Append(ev, [t |-> "report", f |-> t.f, r |-> Instantiate(t)])
          /\ UNCHANGED <<pc, cur, cfg>>
\* the build ends: every file is finished unless a blocker aborted the build
HasBlocker == \E i \in 1..Len(ev) : ev[i].t = "report" /\ ev[i].r.blocker
Close == /\ pc = "run"
         /\ LET fs == SortedSeq(Files)
            IN ev' = IF HasBlocker THEN ev ELSE ev \o [k \in 1..Len(fs) |-> [t |-> "finish", f |-> fs[k], r |-> NoReport]]
         /\ pc' = "done" /\ UNCHANGED <<cur, cfg>>
Next == ChooseIgn \/ ChooseRest \/ Report \/ Close
Spec == Init /\ [][Next]_vars

Done == pc = "done"
\* ---- invariants checked by TLC (all trivially true outside final states)
WithoutIgnore(c, f, l) == [c EXCEPT ![f].ign[l] = NoIgn]
Exactness == Done => \A i \in 1..Len(Slots) :
                 LET f == Slots[i][1] l == Slots[i][2] IN
                 (cfg[f].ign[l].on /\ cfg[f].hasMap) => ExactIgnore(WithoutIgnore(cfg, f, l), cfg, f, l, ev)
WithoutDisable(c, code) == [f \in DOMAIN c |-> [c[f] EXCEPT !.disabled = @ \ {code}]]
DisableExact == Done => \A c \in Codes :
                 (\E f \in Files : c \in cfg[f].disabled) => ExactDisable(WithoutDisable(cfg, c), cfg, c, ev)
OutputExactness == (Done /\ (AssumeNoCrossCodeDups => NoCrossCodeDups(ev))) =>
                 /\ \A i \in 1..Len(Slots) :
                      LET f == Slots[i][1] l == Slots[i][2] IN
                      (cfg[f].ign[l].on /\ cfg[f].hasMap) => NewErrors(WithoutIgnore(cfg, f, l), cfg, ev) = {}
                 /\ \A c \in Codes :
                      (\E f \in Files : c \in cfg[f].disabled) => NewErrors(WithoutDisable(cfg, c), cfg, ev) = {}
AttachedExact == Done => /\ NarrowerOrigin(ev) = {}
                         /\ \A i \in 1..Len(Slots) :
                              LET f == Slots[i][1] l == Slots[i][2] IN
                              (cfg[f].ign[l].on /\ cfg[f].hasMap) => NotesLeftBehind(WithoutIgnore(cfg, f, l), cfg, f, l, ev) = {}
UnusedExact == Done => (UnusedIff(cfg, ev) /\ NoCodeIff(cfg, ev))
ExitCode == Done => ExitTruth(cfg, ev)

\* ---- behaviour emission for replay (Gen configs)
Emit == Done => LET X == Run(cfg, ev) IN
          PrintT(<<"HIST", ToJson([cfg |-> cfg, ev |-> ev, out |-> FileOut(X), exit |-> Exit(X),
                                   used |-> X.used])>>)
=============================================================================
