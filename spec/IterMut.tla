------------------------------ MODULE IterMut ------------------------------
(* Iteration over the builtin containers while the loop body mutates them: CPython's iterators as
   the small exact state machines they are, to be bound to CPython (oracle; validates this
   transcription) and to mypyc's for-loop helpers (mypyc/irbuild/for_helpers.py ForDictionaryKeys /
   Values / Items, ForList (also reversed), ForSequence, ForRange, ForEnumerate, ForZip, ForIterable;
   lib-rt CPyDict_GetKeysIter / CPyDict_NextKey / CPyDict_CheckSize, dict_ops.c).

   A program is   def p(c, seen) -> int:
                      j = 0
                      for <x> in <iterable over c>:
                          seen.append(<x>); j += 1
                          if j == when + 1: <mutation of c> [; break]
                      else:
                          seen.append(-1)
                      return j
   built stepwise (ChooseKind, ChooseN, ChooseWhen, ChooseMut, ChooseBrk) and then executed
   (MakeIter, IterNext, Body, Else).  Observed: seen, the returned count, the RuntimeError, and the
   final state of the container (which the caller owns).

   Containers (n elements):  dict {i: 10 i}, set {i}, list [10 i], tuple, "abc"[:n], range(n).
   Iterators:
     dict (keys / values / items; Objects/dictobject.c dictiter_iternextkey): remembers the size at
       creation (di_used), the next entry index and how many items it still expects; every next()
       first compares di_used with the current size -> RuntimeError "changed size"; then skips deleted
       entries; an entry found when none is expected -> RuntimeError "keys changed".  Deleting leaves
       a tombstone in the entry table, inserting appends an entry (no resize below 6 entries).
     set (setobject.c setiter_iternext): size check as above, then the next occupied slot of the
       hash table (small ints sit in the slot of their value, 8 slots, no resize below 5 fills).
     list (listobject.c listiter_next): an index; item at the index while index < len(list).
     reversed(list) (listreviter_next): an index counting down; item while 0 <= index < len(list).
     enumerate / zip: the list iterator plus a counter / a second (fixed) list.
     tuple / str / range: the object iterated is immutable; rebinding the variable changes nothing.
*)
EXTENDS Naturals, Sequences, FiniteSets, TLC, Json

CONSTANTS MaxN,            \* containers have 0..MaxN elements (<= 3: no dict / set resize is modelled)
          Kinds,           \* subset of the 11 kinds below
          GrowthDetected   \* TRUE: CPython's rule; FALSE: specification-level mutant (a dict / set that
                           \* GREW is not noticed)

AllKinds == {"dkeys", "dvalues", "ditems", "set", "list", "rev", "enum", "zip", "tuple", "str", "range"}
Class(k) == IF k \in {"dkeys", "dvalues", "ditems"} THEN "dict"
            ELSE IF k = "set" THEN "set"
            ELSE IF k \in {"list", "rev", "enum", "zip"} THEN "list" ELSE "imm"
Muts(k) == CASE Class(k) = "dict" -> {"none", "ins", "delcur", "delnext", "delprev", "repl", "clear", "delins"}
             [] Class(k) = "set" -> {"none", "ins", "delcur", "delnext", "delprev", "clear", "delins"}
             [] Class(k) = "list" -> {"none", "append", "delcur", "pop", "ins0", "repl", "clear"}
             [] Class(k) = "imm" -> {"none", "rebind"}

VARIABLES kind, n, when, mut, brk, phase, ents, pos, itused, remaining, cur, seen, cnt, res
vars == <<kind, n, when, mut, brk, phase, ents, pos, itused, remaining, cur, seen, cnt, res>>
gen == <<kind, n, when, mut, brk>>

E(k, v, st) == [k |-> k, v |-> v, st |-> st]
Used(es) == Cardinality({i \in DOMAIN es : es[i].st = "live"})
NewKey == 7
\* the container as built by the caller
Initial(k, m) ==
  CASE Class(k) = "dict" -> [i \in 1..m |-> E(i - 1, 10 * (i - 1), "live")]
    [] Class(k) = "set" -> [i \in 1..8 |-> E(i - 1, 0, IF i <= m THEN "live" ELSE "empty")]
    [] k = "str" -> [i \in 1..m |-> E(i - 1, 96 + i, "live")]
    [] k = "range" -> [i \in 1..m |-> E(i - 1, i - 1, "live")]
    [] OTHER -> [i \in 1..m |-> E(i - 1, 10 * (i - 1), "live")]

\* ------------------------------------------------------------------ generation
Init == /\ kind = "" /\ n = 0 /\ when = 0 /\ mut = "" /\ brk = FALSE /\ phase = "kind"
        /\ ents = <<>> /\ pos = 0 /\ itused = 0 /\ remaining = 0 /\ cur = E(0, 0, "")
        /\ seen = <<>> /\ cnt = 0 /\ res = ""
Keep == UNCHANGED <<ents, pos, itused, remaining, cur, seen, cnt, res>>
ChooseKind == phase = "kind" /\ (\E k \in Kinds : kind' = k) /\ phase' = "n" /\ UNCHANGED <<n, when, mut, brk>> /\ Keep
ChooseN == phase = "n" /\ (\E m \in 0..MaxN : n' = m) /\ phase' = "when" /\ UNCHANGED <<kind, when, mut, brk>> /\ Keep
ChooseWhen == /\ phase = "when" /\ (\E w \in 0..(IF n = 0 THEN 0 ELSE n - 1) : when' = w)
              /\ phase' = "mut" /\ UNCHANGED <<kind, n, mut, brk>> /\ Keep
ChooseMut == /\ phase = "mut"
             /\ \E m \in Muts(kind) :
                  /\ (n = 0 => m = "none")
                  /\ (m = "delnext" => when < n - 1)
                  /\ (m = "delprev" => when >= 1)
                  /\ mut' = m
             /\ phase' = "brk" /\ UNCHANGED <<kind, n, when, brk>> /\ Keep
ChooseBrk == /\ phase = "brk" /\ (\E b \in BOOLEAN : (b => n > 0) /\ brk' = b)
             /\ phase' = "iter" /\ UNCHANGED <<kind, n, when, mut>> /\ Keep

\* ------------------------------------------------------------------ execution
\* iter(c): dict / set remember the size; reversed starts at the last index
MakeIter == /\ phase = "iter"
            /\ ents' = Initial(kind, n)
            /\ itused' = n /\ remaining' = n
            /\ pos' = IF kind = "rev" THEN n ELSE 1
            /\ phase' = "next"
            /\ UNCHANGED <<cur, seen, cnt, res>> /\ UNCHANGED gen

FirstLive(es, from) == LET S == {i \in DOMAIN es : i >= from /\ es[i].st = "live"}
                       IN IF S = {} THEN 0 ELSE CHOOSE i \in S : \A j \in S : i <= j
SizeChanged == IF GrowthDetected THEN itused # Used(ents) ELSE Used(ents) < itused
Stop == phase' = "else" /\ UNCHANGED <<ents, pos, itused, remaining, cur, seen, cnt, res>>
Fail(r) == phase' = "done" /\ res' = r /\ UNCHANGED <<ents, pos, itused, remaining, cur, seen, cnt>>
Yield(e, p) == /\ cur' = e /\ pos' = p /\ phase' = "body"
               /\ remaining' = (IF remaining > 0 THEN remaining - 1 ELSE 0)
               /\ UNCHANGED <<ents, itused, seen, cnt, res>>
IterNext ==
  /\ phase = "next" /\ UNCHANGED gen
  /\ CASE Class(kind) = "dict" ->
            IF SizeChanged THEN Fail("size")
            ELSE LET i == FirstLive(ents, pos) IN
                 IF i = 0 THEN Stop
                 ELSE IF remaining = 0 THEN Fail("keys")
                 ELSE Yield(ents[i], i + 1)
       [] Class(kind) = "set" ->
            IF SizeChanged THEN Fail("setsize")
            ELSE LET i == FirstLive(ents, pos) IN
                 IF i = 0 THEN Stop ELSE Yield(ents[i], i + 1)
       [] kind = "rev" ->
            IF pos >= 1 /\ pos <= Len(ents) THEN Yield(E(pos - 1, ents[pos].v, "live"), pos - 1) ELSE Stop
       [] OTHER ->      \* list / enumerate / zip / tuple / str / range: an index
            IF pos <= Len(ents) /\ (kind = "zip" => pos <= 4)
            THEN Yield(E(pos - 1, ents[pos].v, "live"), pos + 1) ELSE Stop

SeenOf(e, c) == CASE kind \in {"dkeys", "set"} -> <<e.k>>
                  [] kind = "ditems" -> <<e.k, e.v>>
                  [] kind = "enum" -> <<c, e.v>>
                  [] kind = "zip" -> <<e.v, 100 + c>>
                  [] OTHER -> <<e.v>>

Kill(es, key) == [i \in DOMAIN es |-> IF es[i].k = key /\ es[i].st = "live" THEN E(es[i].k, es[i].v, "dead") ELSE es[i]]
SetSlot(es, key, st) == [i \in DOMAIN es |-> IF i = key + 1 THEN E(key, 0, st) ELSE es[i]]
Without(es, i) == [j \in 1..(Len(es) - 1) |-> IF j < i THEN es[j] ELSE es[j + 1]]
Mutate(es, e) ==
  CASE Class(kind) = "dict" ->
         (CASE mut = "ins" -> Append(es, E(NewKey, 70, "live"))
            [] mut = "delcur" -> Kill(es, e.k)
            [] mut = "delnext" -> Kill(es, e.k + 1)
            [] mut = "delprev" -> Kill(es, e.k - 1)
            [] mut = "repl" -> [i \in DOMAIN es |-> IF es[i].k = e.k /\ es[i].st = "live" THEN E(e.k, 99, "live") ELSE es[i]]
            [] mut = "clear" -> <<>>
            [] mut = "delins" -> Append(Kill(es, e.k), E(NewKey, 70, "live")))
    [] Class(kind) = "set" ->
         (CASE mut = "ins" -> SetSlot(es, NewKey, "live")
            [] mut = "delcur" -> SetSlot(es, e.k, "dead")
            [] mut = "delnext" -> SetSlot(es, e.k + 1, "dead")
            [] mut = "delprev" -> SetSlot(es, e.k - 1, "dead")
            [] mut = "clear" -> [i \in DOMAIN es |-> E(i - 1, 0, "empty")]
            [] mut = "delins" -> SetSlot(SetSlot(es, e.k, "dead"), NewKey, "live"))
    [] Class(kind) = "list" ->
         (CASE mut = "append" -> Append(es, E(0, 70, "live"))
            [] mut = "delcur" -> Without(es, e.k + 1)
            [] mut = "pop" -> Without(es, Len(es))
            [] mut = "ins0" -> <<E(0, 70, "live")>> \o es
            [] mut = "repl" -> [es EXCEPT ![e.k + 1] = E(0, 99, "live")]
            [] mut = "clear" -> <<>>)
    [] OTHER -> es                      \* rebinding the variable does not touch the object iterated

Body == /\ phase = "body" /\ UNCHANGED gen
        /\ seen' = seen \o SeenOf(cur, cnt)
        /\ cnt' = cnt + 1
        /\ IF cnt = when /\ mut # "none"
           THEN /\ ents' = Mutate(ents, cur)
                /\ IF brk THEN phase' = "done" /\ res' = "ok" ELSE phase' = "next" /\ UNCHANGED res
           ELSE /\ UNCHANGED ents
                /\ IF cnt = when /\ brk THEN phase' = "done" /\ res' = "ok" ELSE phase' = "next" /\ UNCHANGED res
        /\ UNCHANGED <<pos, itused, remaining, cur>>
Else == /\ phase = "else" /\ UNCHANGED gen
        /\ seen' = Append(seen, 1000)               \* the else clause appends the marker 1000
        /\ phase' = "done" /\ res' = "ok"
        /\ UNCHANGED <<ents, pos, itused, remaining, cur, cnt>>
Next == ChooseKind \/ ChooseN \/ ChooseWhen \/ ChooseMut \/ ChooseBrk \/ MakeIter \/ IterNext \/ Body \/ Else
Spec == Init /\ [][Next]_vars

\* ------------------------------------------------------------------ properties of the rules
Done == phase = "done"
Live(es) == SelectSeq(es, LAMBDA e : e.st = "live")
Terminates == cnt <= MaxN + 1 /\ Len(seen) <= 2 * (MaxN + 1) + 1
NoMutationVisitsAll == (Done /\ mut \in {"none", "rebind"} /\ ~brk) => (res = "ok" /\ cnt = n /\ Len(Live(ents)) = n)
ListsNeverFail == (Done /\ Class(kind) \in {"list", "imm"}) => res = "ok"
\* a dict / set whose size changed is noticed by the next next(), also after the last element
SizeChangeNoticed ==
  (Done /\ Class(kind) \in {"dict", "set"} /\ mut \in {"ins", "delcur", "delnext", "delprev", "clear"} /\ ~brk)
     => res \in {"size", "setsize"}
\* no element is visited twice and nothing after an error
VisitedOnce == Class(kind) \in {"dict", "set"} => cnt <= n + 1
BreakSkipsElse == (Done /\ brk) => (res = "ok" /\ cnt = when + 1)

\* ------------------------------------------------------------------ emission
Emit == Done => PrintT(<<"I", ToJson([kind |-> kind, n |-> n, when |-> when, mut |-> mut, brk |-> brk,
                                      seen |-> seen, ret |-> cnt, res |-> res,
                                      final |-> [i \in DOMAIN Live(ents) |-> <<Live(ents)[i].k, Live(ents)[i].v>>]])>>)
=============================================================================
