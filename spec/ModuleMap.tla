------------------------------ MODULE ModuleMap ------------------------------
(***************************************************************************)
(* C18 -- files and module names map to each other consistently.           *)
(*                                                                         *)
(* A world is a directory tree (a set of files below the tree root "r",    *)
(* which sits in a scratch directory "w" = the empty path) plus a          *)
(* configuration: namespace_packages, explicit_package_bases, the working  *)
(* directory, mypy_path roots and the directory T named on the command     *)
(* line.  The operators below are transcriptions of the pinned code:       *)
(*                                                                         *)
(*   CrawlHelper / CrawlDir / ModuleOf  mypy/find_sources.py               *)
(*        SourceFinder._crawl_up_helper / crawl_up_dir / crawl_up          *)
(*   ListDir                            SourceFinder.find_sources_in_dir   *)
(*        (keyfunc order: __init__, directories, .pyi, .py; `seen`)        *)
(*   Roots                              modulefinder.compute_search_paths  *)
(*        (mypy_path + reversed([cwd] + crawled base dirs))                *)
(*   Find / ScanCand / Verify / Level   FindModuleCache._find_module       *)
(*        restricted to mypy_path + python_path, verify_module,            *)
(*        highest_init_level, namespace near misses                        *)
(*   PkgRec                             FindModuleCache.find_modules_recursive *)
(*        with main.process_options' SearchPaths((cwd,), mypy_path, ..)    *)
(*   Distinct / Resolve                 build.load_graph: the graph is     *)
(*        seeded with the command-line sources ("Duplicate module named"), *)
(*        every other id is looked up with find_module                     *)
(*                                                                         *)
(* Trees are generated stepwise by AddFile (files are added in the order   *)
(* of the constant Universe, so every tree is generated exactly once); the *)
(* action computes the observation `obs` of the new world once, the        *)
(* invariants read it, and the Gen configurations print it for replay      *)
(* into the real create_source_list / compute_search_paths /               *)
(* FindModuleCache.                                                        *)
(*                                                                         *)
(* Not modelled (the name alphabet contains none of it): invalid           *)
(* identifiers, "-stubs" directories, py.typed / site-packages, typeshed,  *)
(* --package-root, --exclude, case-insensitive file systems.               *)
(***************************************************************************)
EXTENDS Naturals, Sequences, FiniteSets, TLC, Json

CONSTANTS
  Universe,    \* sequence of files [d |-> <<"r", ..>>, s |-> stem, e |-> "py" | "pyi"]
  MaxFiles,    \* bound on the number of files of a tree
  Names,       \* every directory name / stem, as a sequence in Python's string order
  Configs,     \* set of [ns, epb, cwd, mp, tgt]
  ShadowRule   \* "asis": find_sources_in_dir as pinned; "initonly": candidate repair

VARIABLES tree, last, cfg, obs

vars == <<tree, last, cfg, obs>>

Null == [e |-> "null"]
NotFound == [d |-> <<>>, s |-> "", e |-> "none"]
F(d, s, e) == [d |-> d, s |-> s, e |-> e]
DirPath(d) == [d |-> d, s |-> "", e |-> "dir"]
Range(f) == {f[i] : i \in DOMAIN f}
Main == <<"__main__">>

IsPrefix(a, b) == Len(a) <= Len(b) /\ SubSeq(b, 1, Len(a)) = a
StrictlyBelow(a, b) == IsPrefix(b, a) /\ Len(a) > Len(b)      \* directory a strictly inside b

RECURSIVE Flatten(_)
Flatten(ss) == IF Len(ss) = 0 THEN <<>> ELSE Head(ss) \o Flatten(Tail(ss))

RECURSIVE Reverse(_)
Reverse(s) == IF Len(s) = 0 THEN <<>> ELSE Append(Reverse(Tail(s)), Head(s))

Sorted(S) == SelectSeq(Names, LAMBDA n : n \in S)               \* a set of names in string order

----------------------------------------------------------------------------
(* the file system.  W = [t |-> tree, c |-> configuration] plus tables derived from the tree *)
(* once per world (directories, which of them hold an __init__ file, their sub-directory     *)
(* names and file stems), so that the transcribed rules below are cheap look-ups for TLC     *)

RECURSIVE PrefixesOf(_)
PrefixesOf(d) == IF Len(d) = 0 THEN {<<>>} ELSE {d} \cup PrefixesOf(SubSeq(d, 1, Len(d) - 1))

World(t, c) ==
  LET dirs == UNION {PrefixesOf(f.d) : f \in t}
  IN [t |-> t, c |-> c,
      dirs |-> dirs,                                                  \* directories holding files
      ini |-> {d \in dirs : \E f \in t : f.d = d /\ f.s = "__init__"},
      sub |-> [d \in dirs |-> {g.d[Len(d) + 1] : g \in {f \in t : StrictlyBelow(f.d, d)}}],
      st |-> [d \in dirs |-> {f.s : f \in {g \in t : g.d = d}}]]

HasFiles(W, d) == d \in W.dirs                       \* some file at or below d
IsDir(W, d) == d = <<>> \/ d = <<"r">> \/ d \in W.dirs
IsFile(W, d, s, e) == F(d, s, e) \in W.t
HasInit(W, d) == d \in W.ini
SubdirNames(W, d) == IF d \in W.dirs THEN W.sub[d] ELSE {}
StemsIn(W, d) == IF d \in W.dirs THEN W.st[d] ELSE {}

----------------------------------------------------------------------------
(* find_sources.py: file -> (module, base dir) *)

ExplicitBases(W) == IF W.c.epb THEN Range(W.c.mp) \cup {W.c.cwd} ELSE {}

RECURSIVE CrawlHelper(_, _), CrawlDir(_, _)
CrawlHelper(W, d) ==       \* _crawl_up_helper: [ok |-> FALSE] stands for None
  IF d \in ExplicitBases(W) THEN [ok |-> TRUE, mod |-> <<>>, base |-> d]
  ELSE IF d = <<>> THEN [ok |-> FALSE]         \* the scratch directory: no __init__ at or above it
  ELSE LET parent == SubSeq(d, 1, Len(d) - 1)
           name == d[Len(d)]
       IN IF HasInit(W, d)
            THEN LET up == CrawlDir(W, parent)
                 IN [ok |-> TRUE, mod |-> Append(up.mod, name), base |-> up.base]
          ELSE IF ~W.c.ns THEN [ok |-> FALSE]
          ELSE LET res == CrawlHelper(W, parent)
               IN IF ~res.ok THEN [ok |-> FALSE]
                  ELSE [ok |-> TRUE, mod |-> Append(res.mod, name), base |-> res.base]
CrawlDir(W, d) ==          \* crawl_up_dir
  LET h == CrawlHelper(W, d)
  IN IF h.ok THEN [mod |-> h.mod, base |-> h.base] ELSE [mod |-> <<>>, base |-> d]

ModuleOf(W, f) ==          \* crawl_up
  LET up == CrawlDir(W, f.d)
  IN IF f.s = "__init__" THEN up ELSE [mod |-> Append(up.mod, f.s), base |-> up.base]

Src(W, f) ==               \* BuildSource(path, module or "__main__", None, base_dir)
  LET m == ModuleOf(W, f)
  IN [mod |-> IF m.mod = <<>> THEN Main ELSE m.mod, path |-> f, base |-> m.base]

(* find_sources_in_dir: the files a directory argument expands to, in order *)
RECURSIVE ListDir(_, _)
ListDir(W, d) ==
  LET subs == SubdirNames(W, d)
      \* `seen.add(name)` for every directory that yielded sources (every directory of the
      \* model does); the candidate repair lets only regular packages shadow a module file
      shadow == IF ShadowRule = "asis" THEN subs ELSE {n \in subs : HasInit(W, Append(d, n))}
      initPart == IF IsFile(W, d, "__init__", "pyi") THEN <<F(d, "__init__", "pyi")>>
                  ELSE IF IsFile(W, d, "__init__", "py") THEN <<F(d, "__init__", "py")>>
                  ELSE <<>>
      sd == Sorted(subs)
      dirPart == Flatten([i \in 1..Len(sd) |-> ListDir(W, Append(d, sd[i]))])
      pyi == Sorted({n \in StemsIn(W, d) \ {"__init__"} : IsFile(W, d, n, "pyi") /\ n \notin shadow})
      py == Sorted({n \in StemsIn(W, d) \ {"__init__"} :
                       IsFile(W, d, n, "py") /\ n \notin shadow /\ ~IsFile(W, d, n, "pyi")})
  IN initPart \o dirPart
       \o [i \in 1..Len(pyi) |-> F(d, pyi[i], "pyi")] \o [i \in 1..Len(py) |-> F(d, py[i], "py")]

DirSources(W, d) == LET fs == ListDir(W, d) IN [i \in 1..Len(fs) |-> Src(W, fs[i])]

(* the files below d named individually, in the order of the Universe *)
AllSources(W, d) ==
  LET idx == SelectSeq([i \in 1..Len(Universe) |-> i],
                       LAMBDA i : Universe[i] \in W.t /\ IsPrefix(d, Universe[i].d))
  IN [i \in 1..Len(idx) |-> Src(W, Universe[idx[i]])]

----------------------------------------------------------------------------
(* modulefinder.py: search paths and module -> file *)

RECURSIVE DistinctBases(_)
DistinctBases(S) ==
  IF Len(S) = 0 THEN <<>>
  ELSE LET rest == DistinctBases(SubSeq(S, 1, Len(S) - 1))
           b == S[Len(S)].base
       IN IF b \in Range(rest) THEN rest ELSE Append(rest, b)

RootsOf(W, bases) == W.c.mp \o Reverse(<<W.c.cwd>> \o bases)   \* mypy_path + python_path
PkgRoots(W) == W.c.mp \o <<W.c.cwd>>                            \* main.py for -p / build of -p targets

RootHas(W, R, n) == n \in SubdirNames(W, R) \/ n \in StemsIn(W, R)   \* get_toplevel_possibilities

(* find_lib_path_dirs: R contributes a candidate base dir for id *)
Candidate(W, R, id) == RootHas(W, R, id[1]) /\ IsDir(W, R \o SubSeq(id, 1, Len(id) - 1))

Verify(W, R, id) ==        \* verify_module: every package containing id has an __init__ file
  \A k \in 1..(Len(id) - 1) : HasInit(W, R \o SubSeq(id, 1, k))

Level(W, R, id) ==         \* highest_init_level
  LET n == Len(id)
      hits == {i \in 1..(n - 1) : HasInit(W, R \o SubSeq(id, 1, n - i))}
  IN IF hits = {} THEN 0 ELSE CHOOSE i \in hits : \A j \in hits : j <= i

NoStep == [hit |-> Null, near |-> <<>>]

(* one iteration of `for base_dir, verify in candidate_base_dirs` (verify is always True for *)
(* mypy_path / python_path entries); a near miss carries its highest_init_level              *)
ScanCand(W, R, id) ==
  LET n == Len(id)
      bd == R \o SubSeq(id, 1, n - 1)
      lastc == id[n]
      pkgdir == Append(bd, lastc)
      ver == Verify(W, R, id)
      lv == Level(W, R, id)
      inits == SelectSeq(<<"pyi", "py">>, LAMBDA e : IsFile(W, pkgdir, "__init__", e))
      mods == SelectSeq(<<"pyi", "py">>, LAMBDA e : IsFile(W, bd, lastc, e))
      \* "In namespace mode, register a potential namespace package"
      nsdir == IF W.c.ns /\ Len(inits) = 0 /\ HasFiles(W, pkgdir)
               THEN <<[p |-> DirPath(pkgdir), lv |-> lv]>> ELSE <<>>
  IN IF Len(inits) > 0 /\ ver THEN [hit |-> F(pkgdir, "__init__", inits[1]), near |-> <<>>]   \* package over module
     ELSE IF Len(mods) > 0 /\ ver THEN [hit |-> F(bd, lastc, mods[1]), near |-> <<>>]         \* .pyi over .py
     ELSE [hit |-> Null,
           near |-> [i \in 1..Len(inits) |-> [p |-> F(pkgdir, "__init__", inits[i]), lv |-> lv]]
                    \o nsdir
                    \o [i \in 1..Len(mods) |-> [p |-> F(bd, lastc, mods[i]), lv |-> lv]]]

Step(W, R, id) == IF Candidate(W, R, id) THEN ScanCand(W, R, id) ELSE NoStep

BestNear(near) ==          \* near_misses[levels.index(max(levels))]
  LET best == CHOOSE i \in 1..Len(near) :
                 /\ \A j \in 1..Len(near) : near[j].lv <= near[i].lv
                 /\ \A j \in 1..(i - 1) : near[j].lv < near[i].lv
  IN near[best].p

(* the loop over the candidates in search-path order, given each root's Step *)
RECURSIVE FindFrom(_, _, _, _)
FindFrom(W, steps, i, near) ==
  IF i > Len(steps)
    THEN IF W.c.ns /\ Len(near) > 0 THEN BestNear(near) ELSE NotFound
  ELSE IF steps[i].hit # Null THEN steps[i].hit
  ELSE FindFrom(W, steps, i + 1, near \o steps[i].near)

Find(W, roots, id) ==      \* _find_module over mypy_path + python_path
  FindFrom(W, [i \in 1..Len(roots) |-> Step(W, roots[i], id)], 1, <<>>)

(* find_modules_recursive as a set of (module, path); fm is find_module as a function of id *)
RECURSIVE PkgRec(_, _, _)
PkgRec(W, fm, id) ==
  LET p == fm[id]
  IN IF p.e = "none" THEN {}
     ELSE LET self == {[mod |-> id, path |-> p]}
              isPkg == p.e = "dir" \/ p.s = "__init__"
              pdir == p.d
          IN IF ~isPkg THEN self
             ELSE LET subs == SubdirNames(W, pdir)
                      \* "Only recurse into packages"; a recursed directory name is `seen`
                      rec == {n \in subs : W.c.ns \/ HasInit(W, Append(pdir, n))}
                      stems == (StemsIn(W, pdir) \ {"__init__"}) \ rec
                  IN self \cup UNION {PkgRec(W, fm, Append(id, n)) : n \in rec \cup stems}

----------------------------------------------------------------------------
(* build.load_graph: seeding and resolution *)

Distinct(S) == \A i, j \in DOMAIN S : S[i].mod = S[j].mod => i = j      \* else "Duplicate module named"
AsSet(S) == {[mod |-> S[i].mod, path |-> S[i].path] : i \in DOMAIN S}

Resolve(W, seeds, roots, id) ==     \* what `import id` in a checked file is bound to
  IF \E s \in seeds : s.mod = id THEN (CHOOSE s \in seeds : s.mod = id).path
  ELSE Find(W, roots, id)

StubSibling(f) == F(f.d, f.s, "pyi")

(* names an import could mention: every dotted prefix of every file below every search root *)
Probes(W, rootset) ==
  UNION {UNION {LET rel == SubSeq(f.d, Len(R) + 1, Len(f.d))
                             \o (IF f.s = "__init__" THEN <<>> ELSE <<f.s>>)
                    IN {SubSeq(rel, 1, k) : k \in 1..Len(rel)}
                : f \in {g \in W.t : IsPrefix(R, g.d)}}
         : R \in rootset}

----------------------------------------------------------------------------
(* the observation of one world: listings, resolution maps, verdicts *)

(* the orders of n base directories that are examined: all of them up to 4 (24 orders); beyond *)
(* that the 2n rotations of the listing order and of its reverse (every pair of base           *)
(* directories still occurs in both relative orders)                                           *)
Perms(n) ==
  IF n <= 4 THEN Permutations(1..n)
  ELSE {[i \in 1..n |-> ((i + k - 1) % n) + 1] : k \in 0..(n - 1)}
       \cup {[i \in 1..n |-> n - ((i + k - 1) % n)] : k \in 0..(n - 1)}

NoNestedBase(W) == \A b \in ExplicitBases(W) : ~StrictlyBelow(b, W.c.tgt)

(* a module file beside a directory of the same name that is not a regular package: the     *)
(* layout on which find_sources_in_dir (the directory wins, the file is dropped) and         *)
(* _find_module (the module file wins over a namespace directory) disagree                   *)
ShadowWitness(W) ==
  \E f \in W.t : /\ f.s # "__init__"
                 /\ HasFiles(W, Append(f.d, f.s))
                 /\ ~HasInit(W, Append(f.d, f.s))

Observe(W) ==
  LET T == W.c.tgt
      D == DirSources(W, T)           \* mypy T
      A == AllSources(W, T)           \* mypy <every file below T>
      dD == Distinct(D)
      dA == Distinct(A)
      bases == DistinctBases(D)
      basesA == DistinctBases(A)
      nb == Len(bases)
      rootset == Range(W.c.mp) \cup {W.c.cwd} \cup Range(bases) \cup Range(basesA)
      probes == Probes(W, rootset)
      \* every root's Step for every name, computed once; a search order only folds over it
      scan == [R \in rootset |-> [x \in probes |-> Step(W, R, x)]]
      findIn(roots) == [x \in probes |-> FindFrom(W, [i \in 1..Len(roots) |-> scan[roots[i]][x]], 1, <<>>)]
      orderOf(bs, pi) == [i \in 1..Len(bs) |-> bs[pi[i]]]
      finds == [pi \in Perms(nb) |-> findIn(RootsOf(W, orderOf(bases, pi)))]
      natPi == [i \in 1..nb |-> i]
      \* Resolve over all probes from a find map: seeded modules win.  (Which directory stands
      \* for a namespace package has no effect on what is checked: directories are one token.)
      seeded(seeds, fm) == [x \in probes |-> IF \E s \in seeds : s.mod = x
                                               THEN (CHOOSE s \in seeds : s.mod = x).path
                                               ELSE IF fm[x].e = "dir" THEN DirPath(<<>>) ELSE fm[x]]
      resNat == seeded(AsSet(D), finds[natPi])
      \* ---- sentence 1 on the build's resolution
      rt == dD => \A i \in DOMAIN D :
               D[i].mod = Main \/ resNat[D[i].mod] \in {D[i].path, StubSibling(D[i].path)}
      \* ---- find-level round trip for the directory listing and its files in any order
      rtf == (dD /\ NoNestedBase(W) /\ T = <<"r">>) =>
               \A pi \in Perms(nb) : \A i \in DOMAIN D :
                  D[i].mod = Main \/ finds[pi][D[i].mod] \in {D[i].path, StubSibling(D[i].path)}
      \* ---- the finder inverts the crawler when every file is named and no two share a module
      fic == (dA /\ NoNestedBase(W) /\ T = <<"r">>) =>
               \A pi \in Perms(Len(basesA)) :
                  LET fm == findIn(RootsOf(W, orderOf(basesA, pi)))
                  IN \A i \in DOMAIN A : A[i].mod = Main \/ fm[A[i].mod] = A[i].path
      \* ---- listing independence
      b1 == dD => \A pi \in Perms(nb) : seeded(AsSet(D), finds[pi]) = resNat
      b2 == (dA /\ NoNestedBase(W)) => AsSet(A) = AsSet(D)
      pk == CrawlDir(W, T)
      findsP == findIn(PkgRoots(W))
      top == IF pk.mod = <<>> THEN NotFound ELSE findsP[pk.mod]
      \* "the package": the name the crawler gives T, below a root that -p searches, and -p finds T
      cmp == /\ dD /\ pk.mod # <<>> /\ pk.base \in Range(PkgRoots(W)) /\ NoNestedBase(W)
             /\ \/ top = DirPath(T)
                \/ (top.e \in {"py", "pyi"} /\ top.s = "__init__" /\ top.d = T)
      P == IF cmp THEN PkgRec(W, findsP, pk.mod) ELSE {}
      Pf == {s \in P : s.path.e # "dir"}
      Dp == {s \in AsSet(D) : IsPrefix(pk.mod, s.mod)}
      full == Dp = AsSet(D)
      b3 == cmp => (Pf = Dp /\ (full => seeded(Pf, findsP) = resNat))
  IN [valid |-> TRUE, D |-> D, A |-> A, dupD |-> ~dD, dupA |-> ~dA, bases |-> bases,
      finds |-> finds, findsP |-> findsP,
      cmp |-> cmp, pkg |-> pk.mod, P |-> P, full |-> cmp /\ full,
      nonest |-> NoNestedBase(W), shadow |-> ShadowWitness(W),
      rt |-> rt, rtf |-> rtf, fic |-> fic, b1 |-> b1, b2 |-> b2, b3 |-> b3]

Valid(W) == IsDir(W, W.c.cwd) /\ HasFiles(W, W.c.tgt)

----------------------------------------------------------------------------
Init == /\ tree = {} /\ last = 0 /\ cfg \in Configs /\ obs = [valid |-> FALSE]

AddFile(i) ==
  /\ i > last /\ Cardinality(tree) < MaxFiles
  /\ tree' = tree \cup {Universe[i]}
  /\ last' = i
  /\ cfg' = cfg
  /\ LET W == World(tree', cfg)
     IN obs' = IF Valid(W) THEN Observe(W) ELSE [valid |-> FALSE]

Next == \E i \in 1..Len(Universe) : AddFile(i)

Spec == Init /\ [][Next]_vars

----------------------------------------------------------------------------
(* properties *)

TypeOK == /\ tree \subseteq Range(Universe) /\ last \in 0..Len(Universe) /\ cfg \in Configs
          /\ Cardinality(tree) <= MaxFiles

(* Sentence 1 of the property, as the build resolves imports: two named files share a       *)
(* module name (duplicate-module error) or each named file's module name resolves to the     *)
(* file (or its stub sibling).  load_graph seeds the graph with the named sources, so this   *)
(* holds by construction of Resolve; it is bound to real builds by the driver.               *)
RoundTrip == obs.valid => obs.rt

(* The same sentence at the level of the two independent implementations (crawl_up against   *)
(* _find_module on the derived search paths), for a tree that is checked as a whole:         *)
(* PathOf(ModuleOf(f)) \in {f, stub sibling of f} for the directory listing and for its      *)
(* files in any order (RoundTripFind), and PathOf(ModuleOf(f)) = f when every file is named  *)
(* individually and no two share a module (FindInvertsCrawl).                                *)
RoundTripFind == obs.valid => (obs.rtf \/ obs.shadow)
FindInvertsCrawl == obs.valid => (obs.fic \/ obs.shadow)

(* Sentence 2: directory, its files in any order, -p.  Stated without exemption ...          *)
OrderIndependence == obs.valid => obs.b1
DirVersusFiles == obs.valid => obs.b2
DirVersusPackage == obs.valid => obs.b3
ListingIndependence == OrderIndependence /\ DirVersusFiles /\ DirVersusPackage

(* ... and as it holds for the pinned code (ShadowRule = "asis"): every failure has the       *)
(* shadowed-module shape, i.e. the defect is characterised completely within the bounds.      *)
OrderIndependenceModuloShadow == obs.valid => (obs.b1 \/ obs.shadow)
DirVersusFilesModuloShadow == obs.valid => (obs.b2 \/ obs.shadow)
DirVersusPackageModuloShadow == obs.valid => (obs.b3 \/ obs.shadow)

----------------------------------------------------------------------------
(* emission for replay: one line per valid world *)

RECURSIVE Join(_, _)
Join(s, sep) == IF Len(s) = 0 THEN "" ELSE IF Len(s) = 1 THEN s[1] ELSE s[1] \o sep \o Join(Tail(s), sep)
DirStr(d) == Join(d, "/")
PathStr(p) == IF p.e = "none" THEN "-" ELSE IF p.e = "dir" THEN DirStr(p.d) \o "/"
              ELSE DirStr(p.d) \o "/" \o p.s \o "." \o p.e
ModStr(m) == Join(m, ".")
SrcOut(S) == [i \in DOMAIN S |-> <<ModStr(S[i].mod), PathStr(S[i].path), DirStr(S[i].base)>>]
MapOut(m) == {<<ModStr(x), PathStr(m[x])>> : x \in DOMAIN m}

Out ==
  [ns |-> cfg.ns, epb |-> cfg.epb, cwd |-> DirStr(cfg.cwd), mp |-> [i \in DOMAIN cfg.mp |-> DirStr(cfg.mp[i])],
   tgt |-> DirStr(cfg.tgt),
   tree |-> {PathStr(f) : f \in tree},
   D |-> SrcOut(obs.D), A |-> SrcOut(obs.A), dupD |-> obs.dupD, dupA |-> obs.dupA,
   bases |-> [i \in DOMAIN obs.bases |-> DirStr(obs.bases[i])],
   finds |-> {[pi |-> [i \in DOMAIN pi |-> pi[i]], m |-> MapOut(obs.finds[pi])] : pi \in DOMAIN obs.finds},
   cmp |-> obs.cmp, pkg |-> ModStr(obs.pkg),
   P |-> {<<ModStr(s.mod), PathStr(s.path)>> : s \in obs.P}, full |-> obs.full,
   findsP |-> MapOut(obs.findsP),
   nonest |-> obs.nonest, shadow |-> obs.shadow,
   v |-> [rt |-> obs.rt, rtf |-> obs.rtf, fic |-> obs.fic, b1 |-> obs.b1, b2 |-> obs.b2, b3 |-> obs.b3]]

Emit == obs.valid => PrintT(<<"WORLD", ToJson(Out)>>)

=============================================================================
