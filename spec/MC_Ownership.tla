---- MODULE MC_Ownership ----
EXTENDS Ownership
AllFuncs == 1..Len(Funcs)
====
