---- MODULE MC_Ownership ----
EXTENDS Ownership
AllFuncs == 1..Len(Funcs)
\* indexes into the hand-made sample of spec/OwnData.tla (harness/drivers/c06.py sample_functions)
SampleGood      == {1, 2, 3, 4}
SampleLeak      == {5}
SampleDouble    == {6}
SampleUndef     == {7}
SampleUseAfter  == {8}
SampleUnchecked == {9}
====
