SPECIFICATION Spec
CONSTANTS
  N = 6
  UseBaseList = TRUE
INVARIANT Emit
