SPECIFICATION Spec
CONSTANT N = 6
INVARIANT Emit
