SPECIFICATION Spec
CONSTANTS
  Toks <- AllToks
  BinOps <- AllBin
  UnOps <- AllUn
  MaxDepth = 1
INVARIANT Emit
