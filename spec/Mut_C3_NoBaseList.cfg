SPECIFICATION Spec
CONSTANTS
  N = 5
  UseBaseList = FALSE
INVARIANT WellFormed
INVARIANT LocalPrecedence
INVARIANT Monotone
INVARIANT FirstBaseNext
INVARIANT ChainsLinearise
