------------------------------- MODULE SeqMatch -------------------------------
(* C01, second fragment: `match` statements with SEQUENCE patterns over tuple- / list-typed subjects.

     def f(t: <subject type>) -> int:
         match t:
             case <sequence pattern 1>:  ...; return 1
             case <sequence pattern 2>:  ...; return 2
         ...                                  (code after the match)
         return 0

   Subject types (items I = int, S = str): fixed tuples `tuple[()]`, `tuple[I]`, `tuple[I, S]`, ...; variadic tuples
   `tuple[I, *tuple[S, ...]]`, `tuple[*tuple[I, ...], S]`, `tuple[I, *tuple[S, ...], I]`; homogeneous `tuple[I, ...]`;
   `list[I]`; unions of two of them.  A type is a record [k, pre, star, suf].
   Pattern items: cap (capture name), wild (`_`), lit0 (`0`), int (`int()`), str (`str()`), scap (`*rest`), swild (`*_`);
   at most one star item per pattern.

   Run-time semantics (PEP 634, exact): length test + positional sub-patterns -- `Matches`.
   Static semantics: what mypy/checkpattern.py visit_sequence_pattern decides about *refutability* (rest type Never: the
   following cases and the code after the match become unreachable), about *possibility* (new type Never: the case body
   is unreachable) and the types bound to captures:
     step 2 (union subject: per item, results joined), step 3 (inner types; structural non-match for fixed tuples of the
     wrong length and for variadic tuples that are too long for a star-less pattern), contract_starred_pattern_types /
     types.split_with_prefix_and_suffix / extend_args_for_prefix_and_suffix (re-shaping around the star), step 4 (item
     patterns: visit_as_pattern, visit_value_pattern, visit_class_pattern, visit_starred_pattern), step 5 (fixed tuple:
     all sub-patterns always match => rest Never; variadic tuple: rest Never iff there is a star, required_patterns <=
     len(inner_types) - 1 and all sub-patterns always match; tuple[X, ...] / list[X]: rest Never only for `[*x]`), and
     checker.visit_match_stmt (the subject is narrowed to the rest type from case to case).
   Properties (TLC, over every member value of the subject type up to length MaxLen): a value matched by case k => the
   static semantics holds case k possible; a value matched by no case => the code after the match is reachable; the
   class of a captured element is in the static type of the capture.
*)
EXTENDS Naturals, Sequences, FiniteSets, TLC, Json

CONSTANTS
  Types,        \* subject item types that may be chosen
  MaxUnion,     \* 1 or 2 items in the subject type
  UnionTypes,   \* types that may appear in a union of two
  ItemKinds,    \* pattern items
  MaxItems,     \* items per pattern
  MaxCases,     \* 1 or 2
  MaxLen,       \* run-time values up to this length
  DoEmit,
  ExcludeHole,  \* TRUE: the soundness invariants skip the programs of finding C01/2 (KnownHole); FALSE: they do not
  Mutant        \* "none" | "offbyone" (the variadic refutability test with <= len(inner_types)) | "homirref"

VARIABLES phase, subj, cases, cur
vars == <<phase, subj, cases, cur>>

Classes == {"I", "S"}
Elems == {"i0", "i1", "sa"}                 \* run-time elements: 0, 1, "a"
ClassOf(e) == IF e = "sa" THEN "S" ELSE "I"
Stars == {"scap", "swild"}

\* ------------------------------------------------------------------------------------ generation
Init == phase = "ty" /\ subj = <<>> /\ cases = <<>> /\ cur = <<>>

AddType == /\ phase = "ty" /\ Len(subj) < MaxUnion
           /\ \E t \in (IF Len(subj) = 0 THEN Types ELSE UnionTypes) :
                /\ (Len(subj) = 1 => subj[1] \in UnionTypes /\ t # subj[1])
                /\ subj' = Append(subj, t)
           /\ UNCHANGED <<phase, cases, cur>>
StartCase == /\ phase \in {"ty", "case"} /\ Len(subj) > 0 /\ Len(cases) < MaxCases
             /\ phase' = "pat" /\ cur' = <<>> /\ UNCHANGED <<subj, cases>>
AddItem == /\ phase = "pat" /\ Len(cur) < MaxItems
           /\ \E q \in ItemKinds : /\ (q \in Stars => ~\E i \in 1..Len(cur) : cur[i] \in Stars)
                                   /\ cur' = Append(cur, q)
           /\ UNCHANGED <<phase, subj, cases>>
CloseCase == /\ phase = "pat" /\ cases' = Append(cases, cur) /\ cur' = <<>> /\ phase' = "case" /\ UNCHANGED subj
Finish == /\ phase = "case" /\ phase' = "fin" /\ UNCHANGED <<subj, cases, cur>>
Next == AddType \/ StartCase \/ AddItem \/ CloseCase \/ Finish
Spec == Init /\ [][Next]_vars

\* ------------------------------------------------------------------------------------ run-time semantics
Seqs == UNION {[1..n -> Elems] : n \in 0..MaxLen}
Conf(s, lo, items) == \A i \in 1..Len(items) : ClassOf(s[lo + i - 1]) = items[i]
MemberOf(v, t) ==
  IF t.k = "fix" THEN Len(v) = Len(t.pre) /\ Conf(v, 1, t.pre)
  ELSE IF t.k = "var" THEN /\ Len(v) >= Len(t.pre) + Len(t.suf)
                           /\ Conf(v, 1, t.pre) /\ Conf(v, Len(v) - Len(t.suf) + 1, t.suf)
                           /\ \A i \in (Len(t.pre) + 1)..(Len(v) - Len(t.suf)) : ClassOf(v[i]) = t.star
  ELSE \A i \in 1..Len(v) : ClassOf(v[i]) = t.star                         \* tuple[X, ...], list[X]
Members == {v \in Seqs : \E j \in 1..Len(subj) : MemberOf(v, subj[j])}

StarPos(p) == IF \E i \in 1..Len(p) : p[i] \in Stars THEN CHOOSE i \in 1..Len(p) : p[i] \in Stars ELSE 0
Req(p) == Len(p) - (IF StarPos(p) > 0 THEN 1 ELSE 0)
ItemMatches(q, e) == IF q = "lit0" THEN e = "i0" ELSE IF q = "int" THEN ClassOf(e) = "I"
                     ELSE IF q = "str" THEN ClassOf(e) = "S" ELSE TRUE
\* index in v of the element matched by pattern position i (positions after the star count from the end)
ValIdx(p, v, i) == IF StarPos(p) = 0 \/ i < StarPos(p) THEN i ELSE Len(v) - (Len(p) - i)
Matches(p, v) ==
  /\ IF StarPos(p) = 0 THEN Len(v) = Len(p) ELSE Len(v) >= Req(p)
  /\ \A i \in 1..Len(p) : p[i] \notin Stars => ItemMatches(p[i], v[ValIdx(p, v, i)])
MatchedCase(v) == IF \E k \in 1..Len(cases) : Matches(cases[k], v)
                  THEN CHOOSE k \in 1..Len(cases) : Matches(cases[k], v) /\ \A j \in 1..(k - 1) : ~Matches(cases[j], v)
                  ELSE 0
StarSlice(p, v) == {v[i] : i \in StarPos(p)..(Len(v) - (Len(p) - StarPos(p)))}

\* ------------------------------------------------------------------------------------ static semantics (mypy)
Rep(x, n) == [i \in 1..n |-> x]
Max0(n) == IF n > 0 THEN n ELSE 0
\* contracted inner types: one set of classes per pattern position ({} = Never), or structural non-match
Contract(t, p) ==
  LET sp == StarPos(p)  req == Req(p) IN
  IF t.k = "fix" THEN
    LET L == Len(t.pre) IN
    IF L < req \/ (L > req /\ sp = 0) THEN [ok |-> FALSE, ct |-> <<>>]
    ELSE [ok |-> TRUE,
          ct |-> [i \in 1..Len(p) |-> IF sp = 0 \/ i < sp THEN {t.pre[i]}
                                      ELSE IF i = sp THEN {t.pre[j] : j \in sp..(sp + L - req - 1)}
                                      ELSE {t.pre[i + (L - req) - 1]}]]
  ELSE IF t.k = "var" THEN
    LET minlen == Len(t.pre) + Len(t.suf) IN
    IF sp = 0 THEN
      IF minlen > req THEN [ok |-> FALSE, ct |-> <<>>]
      ELSE LET tl == t.pre \o Rep(t.star, Max0(req - minlen)) \o t.suf IN
           [ok |-> TRUE, ct |-> [i \in 1..Len(p) |-> IF i <= Len(tl) THEN {tl[i]} ELSE {}]]
    ELSE
      LET P == sp - 1   Sx == req - P
          el == IF minlen + 1 <= P + Sx
                THEN t.pre \o Rep(t.star, Max0(P - Len(t.pre))) \o <<"U">> \o Rep(t.star, Max0(Sx - Len(t.suf))) \o t.suf
                ELSE t.pre \o <<"U">> \o t.suf
          cls(x) == IF x = "U" THEN t.star ELSE x
      IN [ok |-> TRUE,                \* ({"U"}: the Unpack item itself faces a non-star pattern position)
          ct |-> [i \in 1..Len(p) |-> IF i < sp THEN {el[i]}
                                      ELSE IF i = sp THEN {cls(el[j]) : j \in (P + 1)..(Len(el) - Sx)}
                                      ELSE {el[Len(el) - Sx + (i - sp)]}]]
  ELSE [ok |-> TRUE, ct |-> [i \in 1..Len(p) |-> {t.star}]]

ItemPossible(q, T) == IF q = "lit0" \/ q = "int" THEN T = {"I"} ELSE IF q = "str" THEN T = {"S"} ELSE TRUE
ItemAlways(q, T) == IF q = "lit0" THEN FALSE ELSE IF q = "int" THEN T = {"I"} ELSE IF q = "str" THEN T = {"S"} ELSE TRUE
NonStar(p) == {i \in 1..Len(p) : p[i] \notin Stars}

\* The pinned mypy CRASHES (INTERNAL ERROR, AssertionError in types.find_unpack_in_list: two unpacks in one tuple) when
\* the star of the pattern and the variadic part of the tuple end up on different sides: split_with_prefix_and_suffix
\* is not asked to extend (required_patterns <= minimal length) and the Unpack item lands in the prefix or the suffix,
\* e.g. `case [a, *r]` on tuple[*tuple[str, ...], int].  Such programs are not accepted programs; they are emitted with
\* crash = TRUE, replayed one per module, and must crash (a by-product finding, not a C01 violation).
\* (a class or value pattern at that position just fails to match: no crash)
Crash(t, p) ==
  /\ t.k = "var" /\ StarPos(p) > 0
  /\ \E i \in NonStar(p) : Contract(t, p).ct[i] = {"U"} /\ p[i] \in {"cap", "wild"}
AnyCrash == \E k \in 1..Len(cases) : \E j \in 1..Len(subj) : Crash(subj[j], cases[k])
\* The Unpack item itself is handed to a class / value pattern: what the code then computes is an accident (the star
\* capture gets the type of the *fixed* items, ...); the specification does not describe it ("opaque": no static verdict is
\* compared, the program is still checked mypy-vs-CPython).
UFacing(t, p) == t.k = "var" /\ StarPos(p) > 0 /\ \E i \in NonStar(p) : Contract(t, p).ct[i] = {"U"}
Opaque == ~AnyCrash /\ \E k \in 1..Len(cases) : \E j \in 1..Len(subj) : UFacing(subj[j], cases[k])
\* Finding C01/2 (pinned tree): extend_args_for_prefix_and_suffix "eats" the missing pattern positions out of the variadic
\* part; when the tuple also has fixed items on the far side of the star, a short value fills those positions with the
\* fixed items instead: wrong capture types, possible cases held impossible.
KnownHole(t, p) ==
  LET sp == StarPos(p)  P == sp - 1  Sx == Req(p) - P IN
  t.k = "var" /\ sp > 0 /\ ((P > Len(t.pre) /\ Len(t.suf) > 0) \/ (Sx > Len(t.suf) /\ Len(t.pre) > 0))

\* step 5 for a variadic tuple: new_tuple_type = the new inner types (the star item restored as *tuple[T, ...]); the new
\* type is conditional_types_with_intersection(new_tuple_type, [current]): new_tuple_type itself when it is a proper
\* subtype of the current type (an impossible item is Never, a subtype of everything), else Never unless the two tuples
\* overlap by meet.are_tuples_overlapping (expand_tuple_if_possible on both sides, then item-wise)
NewInner(t, p) == LET c == Contract(t, p) IN
                  [i \in 1..Len(p) |-> IF p[i] \in Stars \/ ItemPossible(p[i], c.ct[i]) THEN c.ct[i] ELSE {}]
\* replace the unpack at position u (0 = none) of a sequence of class sets by n copies of its item
Expand(items, u, n) == IF u = 0 THEN items
                       ELSE SubSeq(items, 1, u - 1) \o Rep(items[u], n) \o SubSeq(items, u + 1, Len(items))
TuplesOverlap(t, p) ==
  LET left == NewInner(t, p)
      lu == IF StarPos(p) > 0 /\ left[StarPos(p)] # {} THEN StarPos(p) ELSE 0
      right == [i \in 1..(Len(t.pre) + 1 + Len(t.suf)) |->
                  IF i <= Len(t.pre) THEN {t.pre[i]} ELSE IF i = Len(t.pre) + 1 THEN {t.star} ELSE {t.suf[i - Len(t.pre) - 1]}]
      ru == Len(t.pre) + 1
      lExp == lu > 0 /\ Len(left) <= Len(right) + 1
      left2 == IF lExp THEN Expand(left, lu, Len(right) + 1 - Len(left)) ELSE left
      rExp == Len(right) <= Len(left2) + 1
      right2 == IF rExp THEN Expand(right, ru, Len(left2) + 1 - Len(right)) ELSE right
  IN /\ (lu = 0 \/ lExp) /\ rExp                     \* an unpack left over never overlaps a plain item
     /\ Len(left2) = Len(right2)
     /\ \A i \in 1..Len(left2) : left2[i] \cap right2[i] # {}

TupleSubtype(t, p) ==
  LET left == NewInner(t, p)
      lu == IF StarPos(p) > 0 /\ left[StarPos(p)] # {} THEN StarPos(p) ELSE 0
      n == Len(left)  np == Len(t.pre)  ns == Len(t.suf)
      bound(i) == IF i <= np THEN {t.pre[i]} ELSE IF i > n - ns THEN {t.suf[i - (n - ns)]} ELSE {t.star}
  IN /\ IF lu = 0 THEN n >= np + ns ELSE lu - 1 >= np /\ n - lu >= ns
     /\ \A i \in 1..n : left[i] \subseteq bound(i)

\* new type not Never: the case can match a value of item type t
Possible(t, p) ==
  LET c == Contract(t, p) IN
  /\ c.ok
  /\ (t.k = "fix" => \A i \in NonStar(p) : ItemPossible(p[i], c.ct[i]))
  /\ (t.k = "var" => TupleSubtype(t, p) \/ TuplesOverlap(t, p))
\* rest type Never: every value of item type t matches
Irrefutable(t, p) ==
  LET c == Contract(t, p)  sp == StarPos(p) IN
  /\ c.ok
  /\ IF t.k = "fix" THEN \A i \in NonStar(p) : ItemAlways(p[i], c.ct[i])
     ELSE IF t.k = "var"
     THEN /\ sp > 0
          /\ Req(p) <= Len(t.pre) + Len(t.suf) + (IF Mutant = "offbyone" THEN 1 ELSE 0)
          /\ \A i \in NonStar(p) : ItemAlways(p[i], c.ct[i])
     ELSE sp > 0 /\ (Len(p) = 1 \/ Mutant = "homirref")

\* visit_match_stmt: the items of the subject still alive when case k is checked
RECURSIVE Alive(_)
Alive(k) == IF k = 1 THEN {j \in 1..Len(subj) : TRUE}
            ELSE {j \in Alive(k - 1) : ~Irrefutable(subj[j], cases[k - 1])}
\* Finding C01/3 (pinned tree), step 2: with a UNION subject the type of a star capture is the union of the per-item
\* list types, *skipping* list[Never] (an item where the star is empty); when every item the case can match is skipped
\* the union is empty = Never, and a capture of type Never makes visit_match_stmt mark the case body unreachable.
NeverCapture(k) ==
  LET sp == StarPos(cases[k]) IN
  /\ Cardinality(Alive(k)) >= 2 /\ sp > 0 /\ cases[k][sp] = "scap"
  /\ \A j \in Alive(k) : Possible(subj[j], cases[k]) => Contract(subj[j], cases[k]).ct[sp] = {}
CaseReach(k) == (\E j \in Alive(k) : Possible(subj[j], cases[k])) /\ ~NeverCapture(k)
InHole == \/ \E k \in 1..Len(cases) : \E j \in 1..Len(subj) : KnownHole(subj[j], cases[k])
          \/ \E k \in 1..Len(cases) : NeverCapture(k)
\* a variadic item with an impossible sub-pattern: the new tuple type has a Never item; whether the subtype / overlap
\* tests of the pinned code then call the case possible is not specified here (it is imprecise but sound either way)
Vague(k) == \E j \in Alive(k) : /\ subj[j].k = "var" /\ Contract(subj[j], cases[k]).ok
                                 /\ \E i \in NonStar(cases[k]) : NewInner(subj[j], cases[k])[i] = {}
AfterReach == Alive(Len(cases) + 1) # {}
\* type of the capture at position i of case k: union over the alive items the case can match
CapType(k, i) == UNION {Contract(subj[j], cases[k]).ct[i] : j \in {a \in Alive(k) : Possible(subj[a], cases[k])}}

\* ------------------------------------------------------------------------------------ properties
Done == phase = "fin" /\ ~AnyCrash /\ ~Opaque /\ (ExcludeHole => ~InHole)
ReachSound == Done => \A v \in Members :
                 LET k == MatchedCase(v) IN IF k = 0 THEN AfterReach ELSE CaseReach(k)
CaptureSound == Done => \A v \in Members :
                  LET k == MatchedCase(v) IN
                  k > 0 => \A i \in 1..Len(cases[k]) :
                             IF cases[k][i] = "cap" THEN ClassOf(v[ValIdx(cases[k], v, i)]) \in CapType(k, i)
                             ELSE IF cases[k][i] = "scap" THEN \A e \in StarSlice(cases[k], v) : ClassOf(e) \in CapType(k, i)
                             ELSE TRUE
\* refutability is exact on fixed tuples (mypy claims a precise negative narrowing there)
FixedExact == Done => \A j \in 1..Len(subj) : subj[j].k = "fix" =>
                 \A k \in 1..Len(cases) :
                    (Irrefutable(subj[j], cases[k]) <=> \A v \in Seqs : MemberOf(v, subj[j]) => Matches(cases[k], v))

\* ------------------------------------------------------------------------------------ emission
Counts == [L \in 0..MaxLen |-> [k \in 0..Len(cases) |-> Cardinality({v \in Members : Len(v) = L /\ MatchedCase(v) = k})]]
TyC(t) == <<t.k, t.pre, t.star, t.suf>>
Emit == (DoEmit /\ phase = "fin") =>
          PrintT(<<"SEQ", ToJson(<< [j \in 1..Len(subj) |-> TyC(subj[j])], cases,
                                    IF AnyCrash \/ Opaque THEN <<>> ELSE [k \in 1..Len(cases) |-> CaseReach(k)],
                                    AnyCrash \/ Opaque \/ AfterReach,
                                    IF AnyCrash \/ Opaque THEN <<>> ELSE [k \in 1..Len(cases) |-> [i \in 1..Len(cases[k]) |-> CapType(k, i)]],
                                    [L \in 1..(MaxLen + 1) |-> [k \in 1..(Len(cases) + 1) |-> Counts[L - 1][k - 1]]],
                                    IF AnyCrash \/ Opaque THEN <<>> ELSE [k \in 1..Len(cases) |-> Vague(k)],
                                    IF AnyCrash THEN "crash" ELSE IF Opaque THEN "opaque"
                                    ELSE IF \E k \in 1..Len(cases) : NeverCapture(k) THEN "nevercap"
                                    ELSE IF InHole THEN "hole" ELSE "ok" >>)>>)
=============================================================================
