SPECIFICATION Spec
CONSTANTS
  MaxCmds = 6
VIEW mcview
INVARIANT NoOrphans
INVARIANT FileNamesLiveOrStale
INVARIANT IdleRemovesOwnFile
