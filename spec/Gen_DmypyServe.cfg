SPECIFICATION Spec
CONSTANTS
  CatchReceiveError = TRUE
  ResetOnAccept = TRUE
  CatchSendError = TRUE
  MaxConns = 2
  MaxEdits = 1
  Classes <- AllClasses
INVARIANT Emit
