SPECIFICATION Spec
CONSTANTS
  CatchReceiveError = TRUE
  ResetOnAccept = TRUE
  ResetOnEof = FALSE
  CatchSendError = TRUE
  MaxConns = 2
  MaxEdits = 1
  Classes <- AllClasses
INVARIANT Emit
