------------------------------- MODULE Slots -------------------------------
(* CPython's data-model contracts of the special methods a type's SLOTS call, written to be bound
   to CPython (oracle; also validates this transcription) and to mypyc's generated slot wrappers
   (mypyc/codegen/emitwrapper.py generate_hash_wrapper / generate_len_wrapper / generate_bool_wrapper /
   generate_contains_wrapper / generate_dunder_wrapper / generate_set_del_item_wrapper /
   generate_richcompare_wrapper / generate_bin_op_wrapper, codegen/emitclass.py slot tables).

   A case is built stepwise: ChooseFamily, then one ChooseField per special method of the family
   (is it defined, and what does it return: a value of a small alphabet with the boundary values,
   NotImplemented, or an exception), then ChooseOp.  Expect is the outcome CPython's rules give.

   Family H  __hash__ / __eq__            hash(o), {o: 1}[o], o in {o}, len({o, p})
      Objects/typeobject.c slot_tp_hash: the result is reduced to Py_hash_t (an int that does not
      fit is hashed itself), -1 is reserved for errors and becomes -2; a class that defines __eq__
      without __hash__ gets __hash__ = None (type_new / inherit_slots) and is unhashable.
   Family L  __len__ / __bool__           len(o), bool(o), not o, 1 if o else 2
      slot_sq_length: negative -> ValueError, too big -> OverflowError; slot_nb_bool: __bool__, else
      __len__ != 0, else true.
   Family C  __contains__ / __getitem__ / __setitem__ / __delitem__
             10 in o, 5 in o, o[0], o[5], o[0] = 7, del o[0]
      PySequence_Contains: __contains__, else iteration (here: the __getitem__ sequence protocol,
      ended by IndexError only); item assignment / deletion without either method -> TypeError, with
      only the other one of the pair -> AttributeError.
   Family R  rich comparisons of an A and a B (B unrelated to A or a subclass of A); group "eq":
             __eq__ / __ne__, group "lt": __lt__ / __gt__        a op1 b, a op2 b, b op1 a, b op2 a
      Objects/object.c do_richcompare: a proper subclass on the right is asked first (reflected
      method), then the left operand, then the right one; NotImplemented passes on; == / != fall back
      to identity, ordering to TypeError.  object.__ne__ inverts __eq__ unless that is NotImplemented.
   Family N  __add__ / __radd__ / __iadd__ of A and B                      a + b, b + a, a += b
      Objects/abstract.c binary_op1 + typeobject.c SLOT1BINFULL: a subclass on the right that
      OVERRIDES __radd__ goes first, then left __add__, then right __radd__; NotImplemented passes on;
      nothing left -> TypeError.  += tries __iadd__ first.
   In every family a method marked "raise" raises KeyError (distinct from the errors the slots make).
*)
EXTENDS Naturals, Sequences, FiniteSets, TLC, Json

CONSTANTS Fams,      \* subset of {"H", "L", "C", "R", "N"}
          HashVals,  \* subset of {"none", "m1", "m2", "0", "1", "big", "nbig", "raise"}
          EqVals,    \* family H's __eq__: subset of {"none", "T", "F", "NI"}
          LenVals,   \* subset of {"none", "0", "1", "m1", "big", "raise"}
          BoolVals,  \* subset of {"none", "T", "F", "raise"}
          CmpVals,   \* subset of {"none", "T", "F", "NI"}
          NumVals,   \* subset of {"none", "v", "NI"}
          NegOneIsMinusTwo   \* TRUE: CPython's rule; FALSE: specification-level mutant (hash -1 stays -1)

VARIABLES fam, sh, op, stage
vars == <<fam, sh, op, stage>>

Fields(f) == CASE f = "H" -> <<"hash", "eq">>
               [] f = "L" -> <<"len", "bool">>
               [] f = "C" -> <<"contains", "getitem", "setitem", "delitem">>
               [] f = "R" -> <<"grp", "rel", "a1", "a2", "b1", "b2">>
               [] f = "N" -> <<"rel", "aadd", "aradd", "aiadd", "badd", "bradd">>
Dom(f, name) ==
  CASE name = "hash" -> HashVals
    [] name = "eq" -> EqVals
    [] name = "len" -> LenVals
    [] name = "bool" -> BoolVals
    [] name = "contains" -> {"none", "T", "F", "raise"}
    [] name = "getitem" -> {"none", "seq", "keyerr"}
    [] name \in {"setitem", "delitem"} -> {"none", "def"}
    [] name = "grp" -> {"eq", "lt"}
    [] name = "rel" -> {"unrelated", "sub"}
    [] name \in {"a1", "a2", "b1", "b2"} -> CmpVals
    [] name \in {"aadd", "aradd", "aiadd", "badd", "bradd"} -> NumVals
Ops(f) == CASE f = "H" -> {"hash", "dictget", "inset", "setlen"}
            [] f = "L" -> {"len", "bool", "not", "cond"}
            [] f = "C" -> {"in10", "in5", "get0", "get5", "set0", "del0"}
            [] f = "R" -> {"ab1", "ab2", "ba1", "ba2"}
            [] f = "N" -> {"a+b", "b+a", "a+=b"}

Idx(f, name) == CHOOSE i \in 1..Len(Fields(f)) : Fields(f)[i] = name
V(s, f, name) == s[Idx(f, name)]
Ret(v) == [k |-> "ret", v |-> v]
Exc(t) == [k |-> "exc", v |-> t]

\* ------------------------------------------------------------------ family H
HashRes(h) == CASE h = "m1" -> (IF NegOneIsMinusTwo THEN "m2" ELSE "m1")
                [] h = "big" -> "hbig"      \* hash(2**63): an int that does not fit is hashed itself
                [] h = "nbig" -> "hnbig"    \* hash(-2**63 - 1)
                [] OTHER -> h
Unhashable(s) == V(s, "H", "hash") = "none" /\ V(s, "H", "eq") # "none"
ExpectH(s, o) ==
  IF Unhashable(s) THEN Exc("TypeError")
  ELSE IF V(s, "H", "hash") = "raise" THEN Exc("KeyError")
  ELSE CASE o = "hash" -> Ret(HashRes(V(s, "H", "hash")))
         [] o = "dictget" -> Ret("1")
         [] o = "inset" -> Ret("True")            \* identity is tried before __eq__
         [] o = "setlen" -> \* two distinct instances; with a defined __hash__ the hashes are equal
                            IF V(s, "H", "hash") # "none" /\ V(s, "H", "eq") = "T" THEN Ret("1") ELSE Ret("2")
\* the default hash is the identity: nothing to predict
EnabledH(s, o) == ~(o = "hash" /\ V(s, "H", "hash") = "none" /\ V(s, "H", "eq") = "none")

\* ------------------------------------------------------------------ family L
LenRes(l) == CASE l = "none" -> Exc("TypeError")
               [] l = "m1" -> Exc("ValueError")
               [] l = "big" -> Exc("OverflowError")
               [] l = "raise" -> Exc("KeyError")
               [] OTHER -> Ret(l)
Truth(s) == LET b == V(s, "L", "bool")
                l == V(s, "L", "len")
            IN IF b = "raise" THEN Exc("KeyError")
               ELSE IF b # "none" THEN Ret(b)
               ELSE IF l = "none" THEN Ret("T")
               ELSE IF LenRes(l).k = "exc" THEN LenRes(l)
               ELSE Ret(IF l = "0" THEN "F" ELSE "T")
ExpectL(s, o) ==
  IF o = "len" THEN LenRes(V(s, "L", "len"))
  ELSE LET t == Truth(s) IN
       IF t.k = "exc" THEN t
       ELSE CASE o = "bool" -> Ret(IF t.v = "T" THEN "True" ELSE "False")
              [] o = "not" -> Ret(IF t.v = "T" THEN "False" ELSE "True")
              [] o = "cond" -> Ret(IF t.v = "T" THEN "1" ELSE "2")

\* ------------------------------------------------------------------ family C
\* "seq": __getitem__(i) returns 10 * i for i in 0..1 and raises IndexError otherwise
ExpectC(s, o) ==
  LET c == V(s, "C", "contains")
      g == V(s, "C", "getitem")
  IN CASE o \in {"in10", "in5"} ->
            IF c = "raise" THEN Exc("KeyError")
            ELSE IF c # "none" THEN Ret(IF c = "T" THEN "True" ELSE "False")
            ELSE IF g = "seq" THEN Ret(IF o = "in10" THEN "True" ELSE "False")
            ELSE IF g = "keyerr" THEN Exc("KeyError")     \* only IndexError ends the old-style iteration
            ELSE Exc("TypeError")
       [] o = "get0" -> IF g = "none" THEN Exc("TypeError") ELSE IF g = "seq" THEN Ret("0") ELSE Exc("KeyError")
       [] o = "get5" -> IF g = "none" THEN Exc("TypeError") ELSE IF g = "seq" THEN Exc("IndexError") ELSE Exc("KeyError")
       \* __setitem__ and __delitem__ share the slot mp_ass_subscript (slot_mp_ass_subscript): with only
       \* one of them defined the slot exists and the lookup of the other one fails with AttributeError
       [] o = "set0" -> IF V(s, "C", "setitem") = "def" THEN Ret("s0=7")
                        ELSE IF V(s, "C", "delitem") = "def" THEN Exc("AttributeError") ELSE Exc("TypeError")
       [] o = "del0" -> IF V(s, "C", "delitem") = "def" THEN Ret("d0")
                        ELSE IF V(s, "C", "setitem") = "def" THEN Exc("AttributeError") ELSE Exc("TypeError")

\* ------------------------------------------------------------------ family R
\* m in {1, 2}: group eq: 1 is ==, 2 is !=;  group lt: 1 is <, 2 is >
Refl(s, m) == IF V(s, "R", "grp") = "eq" THEN m ELSE 3 - m
Own(s, X, m) == V(s, "R", (IF X = "A" THEN "a" ELSE "b") \o (IF m = 1 THEN "1" ELSE "2"))
IsSub(s, f) == V(s, f, "rel") = "sub"
\* what the MRO lookup finds: the class's own definition, an inherited one, or object's
LookupR(s, X, m) == IF Own(s, X, m) # "none" THEN Own(s, X, m)
                    ELSE IF X = "B" /\ IsSub(s, "R") /\ Own(s, "A", m) # "none" THEN Own(s, "A", m)
                    ELSE "object"
Invert(r) == IF r = "T" THEN "F" ELSE IF r = "F" THEN "T" ELSE r
\* the result of type(x).m(x, y) for distinct objects x, y
CallR(s, X, m) ==
  LET l == LookupR(s, X, m) IN
  IF l # "object" THEN l
  ELSE IF V(s, "R", "grp") = "lt" THEN "NI"
  ELSE IF m = 1 THEN "NI"                                  \* object.__eq__: identical or NotImplemented
  ELSE LET e == LookupR(s, X, 1) IN                        \* object.__ne__ asks __eq__ and inverts
       IF e = "object" THEN "NI" ELSE Invert(e)
Rich(s, v, w, m) ==
  LET rev == w = "B" /\ v = "A" /\ IsSub(s, "R")            \* the right operand's type is a proper subclass
      r1 == IF rev THEN CallR(s, w, Refl(s, m)) ELSE "NI"
      r2 == CallR(s, v, m)
      r3 == IF rev THEN "NI" ELSE CallR(s, w, Refl(s, m))
      r == IF r1 # "NI" THEN r1 ELSE IF r2 # "NI" THEN r2 ELSE r3
  IN IF r # "NI" THEN Ret(IF r = "T" THEN "True" ELSE "False")
     ELSE IF V(s, "R", "grp") = "lt" THEN Exc("TypeError")
     ELSE Ret(IF m = 1 THEN "False" ELSE "True")            \* identity of two distinct objects
ExpectR(s, o) == CASE o = "ab1" -> Rich(s, "A", "B", 1) [] o = "ab2" -> Rich(s, "A", "B", 2)
                   [] o = "ba1" -> Rich(s, "B", "A", 1) [] o = "ba2" -> Rich(s, "B", "A", 2)

\* ------------------------------------------------------------------ family N
OwnN(s, X, meth) == V(s, "N", (IF X = "A" THEN "a" ELSE "b") \o meth)
\* meth in {"add", "radd"} (only A's __iadd__ is used: a += b)
LookupN(s, X, meth) == IF OwnN(s, X, meth) # "none" THEN OwnN(s, X, meth)
                       ELSE IF X = "B" /\ IsSub(s, "N") THEN OwnN(s, "A", meth)
                       ELSE "none"
\* where the found method lives (to name the value it returns)
HomeN(s, X, meth) == IF X = "B" /\ OwnN(s, "B", meth) = "none" THEN "A" ELSE X
CallN(s, X, meth) == LET l == LookupN(s, X, meth) IN
                     IF l = "v" THEN HomeN(s, X, meth) \o "." \o meth ELSE "NI"     \* missing -> NotImplemented
HasSlot(s, X) == LookupN(s, X, "add") # "none" \/ LookupN(s, X, "radd") # "none"
Bin(s, v, w) ==
  LET sub == w = "B" /\ v = "A" /\ IsSub(s, "N")
      overloaded == sub /\ OwnN(s, "B", "radd") # "none"     \* B's __radd__ is not the one A has
      first == HasSlot(s, v) /\ HasSlot(s, w) /\ overloaded
      r1 == IF first THEN CallN(s, w, "radd") ELSE "NI"
      r2 == IF HasSlot(s, v) THEN CallN(s, v, "add") ELSE "NI"
      r3 == IF HasSlot(s, w) /\ ~first THEN CallN(s, w, "radd") ELSE "NI"
      r == IF r1 # "NI" THEN r1 ELSE IF r2 # "NI" THEN r2 ELSE r3
  IN IF r = "NI" THEN Exc("TypeError") ELSE Ret(r)
ExpectN(s, o) ==
  CASE o = "a+b" -> Bin(s, "A", "B")
    [] o = "b+a" -> Bin(s, "B", "A")
    [] o = "a+=b" -> IF V(s, "N", "aiadd") = "v" THEN Ret("A.iadd") ELSE Bin(s, "A", "B")

Expect(f, s, o) == CASE f = "H" -> ExpectH(s, o) [] f = "L" -> ExpectL(s, o) [] f = "C" -> ExpectC(s, o)
                     [] f = "R" -> ExpectR(s, o) [] f = "N" -> ExpectN(s, o)

\* ------------------------------------------------------------------ behaviour
Init == fam = "" /\ sh = <<>> /\ op = "" /\ stage = "family"
ChooseFamily == /\ stage = "family" /\ \E f \in Fams : fam' = f
                /\ stage' = "fields" /\ UNCHANGED <<sh, op>>
ChooseField == /\ stage = "fields" /\ Len(sh) < Len(Fields(fam))
               /\ \E x \in Dom(fam, Fields(fam)[Len(sh) + 1]) : sh' = Append(sh, x)
               /\ UNCHANGED <<fam, op, stage>>
ChooseOp == /\ stage = "fields" /\ Len(sh) = Len(Fields(fam))
            /\ \E o \in Ops(fam) : (fam = "H" => EnabledH(sh, o)) /\ op' = o
            /\ stage' = "done" /\ UNCHANGED <<fam, sh>>
Next == ChooseFamily \/ ChooseField \/ ChooseOp
Spec == Init /\ [][Next]_vars

\* ------------------------------------------------------------------ properties of the rules
Done == stage = "done"
\* a hash is never -1
HashNeverMinusOne == (Done /\ fam = "H" /\ op = "hash") => Expect(fam, sh, op) # Ret("m1")
\* not o is the negation of bool(o), and both fail together
NotIsNegation ==
  (Done /\ fam = "L") =>
     LET b == ExpectL(sh, "bool") n == ExpectL(sh, "not") IN
     /\ (b.k = "exc") = (n.k = "exc")
     /\ (b.k = "ret" => b.v # n.v)
\* without a user-defined method on either side, == and != of distinct objects are identity
DefaultEqIsIdentity ==
  (Done /\ fam = "R" /\ V(sh, "R", "grp") = "eq" /\ \A x \in {"a1", "a2", "b1", "b2"} : V(sh, "R", x) = "none") =>
     /\ ExpectR(sh, "ab1") = Ret("False") /\ ExpectR(sh, "ab2") = Ret("True")
\* != is the inverse of == when only __eq__ methods that answer are defined
NeDerivedFromEq ==
  (Done /\ fam = "R" /\ V(sh, "R", "grp") = "eq" /\ V(sh, "R", "a2") = "none" /\ V(sh, "R", "b2") = "none"
        /\ V(sh, "R", "a1") \in {"T", "F"} /\ V(sh, "R", "b1") \in {"none", "T", "F"}) =>
     ExpectR(sh, "ab1").v # ExpectR(sh, "ab2").v
\* an ordering comparison nobody answers is a TypeError, never a value
OrderingNeedsAnAnswer ==
  (Done /\ fam = "R" /\ V(sh, "R", "grp") = "lt" /\ \A x \in {"a1", "a2", "b1", "b2"} : V(sh, "R", x) \in {"none", "NI"}) =>
     ExpectR(sh, op) = Exc("TypeError")
\* a + b with only NotImplemented answers is a TypeError; an answering left __add__ wins over an unrelated right operand
AddRules ==
  (Done /\ fam = "N") =>
     /\ ((\A x \in {"aadd", "aradd", "badd", "bradd"} : V(sh, "N", x) # "v") => Bin(sh, "A", "B") = Exc("TypeError"))
     /\ ((V(sh, "N", "aadd") = "v" /\ ~IsSub(sh, "N")) => Bin(sh, "A", "B") = Ret("A.add"))

\* ------------------------------------------------------------------ emission
Emit == Done => PrintT(<<"S", ToJson([fam |-> fam, f |-> Fields(fam), v |-> sh, op |-> op, e |-> Expect(fam, sh, op)])>>)
=============================================================================
