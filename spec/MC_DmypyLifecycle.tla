---- MODULE MC_DmypyLifecycle ----
EXTENDS DmypyLifecycle
====
