---- MODULE MC_TransDeps ----
EXTENDS TransDeps
====
