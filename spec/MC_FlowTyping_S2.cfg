SPECIFICATION Spec
CONSTANT Classes <- S2_Classes
CONSTANT Vars <- F_Vars
CONSTANT ParamTypes <- S2_Param
CONSTANT LocalTypes <- S2_Local
CONSTANT RetTypes <- S1_Ret
CONSTANT HelperTypes <- S2_Helper
CONSTANT CondKinds <- S2_Conds
CONSTANT LoopCondKinds <- Opq
CONSTANT StmtKinds <- S2_Kinds
CONSTANT MaxStmts = 2
CONSTANT MaxDepth = 2
CONSTANT DoRun = TRUE
CONSTANT DoEmit = TRUE
CONSTANT Mutant = "none"
CONSTANT FlagAwareJoin = TRUE
CONSTANT AsgToks <- AllAsg
CONSTANT IfVars <- F_Vars
CONSTANT LoopVars <- F_Vars
CONSTANT HeaderExprs <- AllHeaderExprs
INVARIANT MemberOK
INVARIANT RevealOK
INVARIANT ReachOK
INVARIANT NoWrong
INVARIANT BinderShape
INVARIANT Balanced
INVARIANT Emit
