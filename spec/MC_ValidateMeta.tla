---- MODULE MC_ValidateMeta ----
EXTENDS ValidateMeta
====
