---- MODULE MC_Slots ----
EXTENDS Slots
====
