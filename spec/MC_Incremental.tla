---- MODULE MC_Incremental ----
EXTENDS Incremental
====
