SPECIFICATION Spec
CONSTANTS
  MaxLen = 9
  MaxDepth = 2
  MaxTry = 2
  MaxUse = 1
  MaxBoom = 1
INVARIANT TypeOK
INVARIANT WellNested
PROPERTY HandlerSound
