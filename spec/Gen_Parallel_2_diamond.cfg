SPECIFICATION Spec
CONSTANTS
  N = 2
  Shape = "diamond"
  StaleKind = "cold"
  ReplyBeforeCommit = FALSE
  DoneAtSubmit = FALSE
INVARIANT Emit
