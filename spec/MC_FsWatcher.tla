---- MODULE MC_FsWatcher ----
EXTENDS FsWatcher
PathsDef == {"p", "q"}
ContentsDef == {"x1", "x2", "y"}
====
