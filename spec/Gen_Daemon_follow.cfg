SPECIFICATION Spec
CONSTANTS
  MaxEdits = 2
  MaxRequests = 3
  FollowIndirect = FALSE
  Follow = TRUE
INVARIANT Emit
