SPECIFICATION Spec
CONSTANTS
  KeyOf <- BuildSubtypeKind
  Ask = "single"
  MaxQ = 3
  MaxR = 1
VIEW view
INVARIANT AnswerIsTruth
INVARIANT CacheSound
INVARIANT Disjoint
INVARIANT OnlyRecordable
