SPECIFICATION Spec
CONSTANTS
  MaxTok = 14
  MaxDepth = 3
  MaxHandlers = 2
  MaxSimple = 2
  Excs = {"V", "K"}
  Pats = {"V", "L", "X"}
  Guards = {0, 1}
  UseCraise = TRUE
  UseReraise = TRUE
  UseLoopElse = TRUE
  UseDef = TRUE
  LoopKinds = {"for", "while"}
  LoopN = 2
  FinJumps = "guarded"
  JumpThroughFinally = FALSE
  Stutter = FALSE
  FinallyOverrides = TRUE
INVARIANT HandledMirrorsStack
INVARIANT FinallyAlwaysRuns
INVARIANT JumpTargetsExist
INVARIANT StructuredFlow
INVARIANT ResultShape
INVARIANT Terminates
INVARIANT Completable
INVARIANT Emit
