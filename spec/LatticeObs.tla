---- MODULE LatticeObs ----
(* Observation tables of the C08 law checker (see Lattice.tla).  This file holds the EMPTY tables
   used by the term-generator runs; for a law-checking run the harness generates a module of the
   same name, with the tables extracted from the implementation, into a scratch directory.

     N        terms are 1..N
     M        observed types (terms, joins, meets, simplified and raw unions) are 1..M, N <= M
     SRange   the rows s this run checks (a sub-range of 1..N; JoinT / MeetT rows outside are <<>>)
     AnyFree  subset of 1..N: terms that do not contain Any
     TermOf   sequence 1..N of the term records [op, args] (for the reference relation)
     SubRow   sequence 1..M of sets: SubRow[a] = {b : is_subtype(a, b)} among the asked pairs
     AskedRow sequence 1..M of sets: pairs <<a, b>> asked beyond the N x N block
     PSubRow  sequence 1..N of sets over 1..N: is_proper_subtype
     SameRow  sequence 1..N of sets over 1..N: is_same_type
     JoinT    N x N matrix: id of join_types(s, t)   (0: the call raised)
     MeetT    N x N matrix: id of meet_types(s, t)   (0: the call raised)
     SimpObs  sequence of [items, raw, res]: make_simplified_union over all permutations of
              `items` gave the distinct results res (each [r |-> id, perm |-> witness order]);
              raw = id of the unsimplified UnionType(items) *)
N == 0
M == 0
SRange == {}
AnyFree == {}
TermOf == <<>>
SubRow == <<>>
AskedRow == <<>>
PSubRow == <<>>
SameRow == <<>>
JoinT == <<>>
MeetT == <<>>
SimpObs == <<>>
====
