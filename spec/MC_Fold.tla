---- MODULE MC_Fold ----
EXTENDS Fold
AllBin == {"+", "-", "*", "/", "//", "%", "&", "|", "^", "<<", ">>", "**"}
AllUn == {"-", "~", "+"}
\* every operand token (the harness knows the literal each stands for)
AllToks == {"i0", "i1", "i2", "i3", "i7", "i64", "im1", "im2", "im7",
            "b31m", "b31", "b31p", "nb31", "nb31m", "b32m", "b32", "b32p",
            "b63m", "b63", "b63p", "nb63", "nb63m", "b64m", "b64", "b64p",
            "h1023", "h1024", "nh1024",
            "bT", "bF",
            "f00", "fm00", "f15", "fm15", "f05", "f20", "fbig", "finf",
            "s0", "sab", "c1j", "c0j", "y0", "yab",
            "nFI", "nFF", "nFS", "nFB", "nNV", "nFN"}
ToksL2q == {"i3", "im2", "f15", "bT"}
ToksL2t == {"i3", "im2", "i0", "b64", "bT", "f15", "f00", "sab", "c1j", "nFI"}
ToksL3 == {"i3", "i0"}
BinL3q == {"+", "//", "%", "**"}
BinL3t == {"+", "-", "*", "//", "%", "**", "<<"}
====
