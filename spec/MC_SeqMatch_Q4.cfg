SPECIFICATION Spec
CONSTANT Types <- UTypes
CONSTANT MaxUnion = 2
CONSTANT UnionTypes <- UTypes
CONSTANT ItemKinds <- CapItems
CONSTANT MaxItems = 2
CONSTANT MaxCases = 1
CONSTANT MaxLen = 4
CONSTANT DoEmit = TRUE
CONSTANT ExcludeHole = TRUE
CONSTANT Mutant = "none"
INVARIANT ReachSound
INVARIANT CaptureSound
INVARIANT FixedExact
INVARIANT Emit
