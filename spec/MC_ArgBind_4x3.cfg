SPECIFICATION Spec
CONSTANTS
  NP = 4
  NA = 3
  MaxStar = 2
  MaxTD = 2
  GenSigs = TRUE
  WithUnknown <- UnknownOn
INVARIANT SigsAgree
INVARIANT BindsIffWellDefined
INVARIANT DefaultsRelax
INVARIANT ArityMonotone
INVARIANT QuantifiedAgrees
