---- MODULE MC_Lattice ----
(* Constants of the C08 universe.  Gen_Lattice_Q/T.cfg run the term generator (tables: the empty
   ones of spec/LatticeObs.tla); MC_Lattice_Laws.cfg runs the law checker in a scratch directory
   where the driver has put a generated LatticeObs.tla. *)
EXTENDS Lattice

\* nominal classes: user classes declared by the generated module, and builtins (not declared)
BasesDef == [A |-> {}, B |-> {"A"}, C |-> {"A"}, D |-> {"B", "C"}, E |-> {},
             object |-> {}, int |-> {}, bool |-> {"int"}, str |-> {}, float |-> {}]
UserClassesDef == {"A", "B", "C", "D", "E"}
PromotionsDef == {<<"int", "float">>}
LitBaseDef == [Lit1 |-> "int", Lit2 |-> "int", LitA |-> "str", LitTrue |-> "bool"]
OtherAtomsDef == {"Any", "P", "ImplA", "ImplB", "PGA", "CoB", "Col", "ColR", "ColG", "TD1", "TD2", "NT",
                  "type", "TypeT", "TypeTB", "T", "TB", "TV", "Rec", "Rec2", "PRec", "ImplRec", "Tuple0", "CallAny", "CallT",
                  \* metaclasses and classes that have one; class objects; overloaded functions (declared names)
                  "Meta", "OtherMeta", "SubMeta", "WM", "WMSub", "WO",
                  "ObjA", "ObjB", "ObjWM", "ObjWO", "Ov1", "Ov2", "Ov3", "Ov4", "Ov5"}
UOpsDef == {"Inv", "Co", "Contra", "VarTuple", "Opt", "Seq", "PG", "PContra"}
FnKindsDef == {"FnPos", "FnNamed", "FnOpt", "FnOptNamed", "FnStar", "FnKw", "FnKwOpt", "FnStar2"}

\* ---- quick universe
UArgsQ == {"A", "B", "E", "int", "float", "Any", "None", "TB"}
TypeArgsQ == {"A", "B", "D", "E", "int", "float", "Any", "WM", "WMSub", "WO"}
TupArgsQ == {"A", "B", "int", "Any"}
UnionArgsQ == <<"A", "B", "E", "int", "None", "Lit1", "str", "T", "Any">>
FnArgsQ == {"A", "B"}
FnRetsQ == {"A", "B"}
VtItemsQ == {"A", "int"}
ExtrasQ == { Mk("Tuple3", <<Atom("A"), Atom("B"), Atom("C")>>),
             Mk("TuplePre", <<Atom("A"), Atom("B")>>),
             Mk("Fn0", <<Atom("A")>>),
             Mk("Fn2", <<Atom("A"), Atom("B"), Atom("A")>>),
             Mk("Co", <<Mk("Inv", <<Atom("B")>>)>>),
             Mk("Contra", <<Mk("Union", <<Atom("T"), Atom("Any")>>)>>),
             Mk("PContra", <<Mk("Union", <<Atom("T"), Atom("Any")>>)>>),
             Mk("Union", <<Atom("A"), Atom("B"), Atom("E")>>),
             Mk("TypeOf", <<Mk("Union", <<Atom("WM"), Atom("A")>>)>>),
             Mk("TypeOf", <<Mk("Union", <<Atom("WM"), Atom("WO")>>)>>),
             Mk("FnPos", <<Atom("E"), Atom("E")>>), Mk("FnNamed", <<Atom("E"), Atom("E")>>),
             Mk("FnNamed", <<Atom("C"), Atom("C")>>), Mk("FnPos", <<Atom("A"), Atom("object")>>),
             Mk("Union", <<Mk("FnPos", <<Atom("A"), Atom("A")>>), Atom("A")>>),
             Mk("Fn2Named", <<Atom("A"), Atom("A"), Atom("A")>>) }
SimpAtomsQ == <<"A", "B", "D", "E", "int", "bool", "float", "None", "Lit1", "LitTrue", "ColR", "ColG", "Col", "Any">>

\* ---- thorough universe (the driver adds seeded random depth-2 terms on top)
UArgsT == UArgsQ \cup {"C", "D", "str", "T", "Lit1", "Never", "object", "ImplB", "Col"}
TypeArgsT == TypeArgsQ \cup {"C", "object", "bool", "str"}
TupArgsT == TupArgsQ \cup {"None", "T", "Never"}
UnionArgsT == <<"A", "B", "E", "int", "None", "Lit1", "str", "T", "Any", "D", "float", "LitA", "TB", "Never", "ColR">>
FnArgsT == {"A", "B", "int"}
FnRetsT == {"A", "B", "None"}
VtItemsT == {"A", "B", "int"}
ExtrasT == ExtrasQ \cup { Mk("Inv", <<Mk("Inv", <<Atom("A")>>)>>),
                          Mk("Tuple2", <<Mk("Tuple2", <<Atom("A"), Atom("B")>>), Atom("int")>>),
                          Mk("TypeOf", <<Atom("ImplA")>>), Mk("TypeOf", <<Atom("Col")>>), Mk("TypeOf", <<Atom("NT")>>),
                          Mk("Union", <<Atom("ColR"), Atom("ColG")>>),
                          Mk("Union", <<Atom("LitTrue"), Atom("None")>>) }
SimpAtomsT == SimpAtomsQ \o <<"T", "TB", "object", "Never">>

====
