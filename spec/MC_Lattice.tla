---- MODULE MC_Lattice ----
(* Constants of the C08 universe.  Gen_Lattice_Q/T.cfg run the term generator (tables: the empty
   ones of spec/LatticeObs.tla); MC_Lattice_Laws.cfg runs the law checker in a scratch directory
   where the driver has put a generated LatticeObs.tla. *)
EXTENDS Lattice

\* nominal classes: user classes declared by the generated module, and builtins (not declared)
BasesDef == [A |-> {}, B |-> {"A"}, C |-> {"A"}, D |-> {"B", "C"}, E |-> {},
             object |-> {}, int |-> {}, bool |-> {"int"}, str |-> {}, float |-> {}]
UserClassesDef == {"A", "B", "C", "D", "E"}
PromotionsDef == {<<"int", "float">>}
LitBaseDef == [Lit1 |-> "int", Lit2 |-> "int", LitA |-> "str", LitTrue |-> "bool"]
OtherAtomsDef == {"Any", "P", "ImplA", "ImplB", "PGA", "CoB", "Col", "ColR", "ColG", "TD1", "TD2", "NT",
                  "type", "TypeT", "TypeTB", "T", "TB", "TV", "Rec", "Rec2", "PRec", "ImplRec", "Tuple0", "CallAny", "CallT"}
UOpsDef == {"Inv", "Co", "Contra", "VarTuple", "Opt", "Seq", "PG", "PContra"}
FnKindsDef == {"FnPos", "FnNamed", "FnOpt", "FnOptNamed", "FnStar", "FnKw", "FnKwOpt", "FnStar2"}

\* ---- quick universe
UArgsQ == {"A", "B", "E", "int", "float", "Any", "None", "TB"}
TypeArgsQ == {"A", "B", "D", "E", "int", "float", "Any"}
TupArgsQ == {"A", "B", "int", "Any"}
UnionArgsQ == <<"A", "B", "E", "int", "None", "Lit1", "str", "T", "Any">>
FnArgsQ == {"A", "B"}
FnRetsQ == {"A", "B"}
VtItemsQ == {"A", "int"}
ExtrasQ == { Mk("Tuple3", <<Atom("A"), Atom("B"), Atom("C")>>),
             Mk("TuplePre", <<Atom("A"), Atom("B")>>),
             Mk("Fn0", <<Atom("A")>>),
             Mk("Fn2", <<Atom("A"), Atom("B"), Atom("A")>>),
             Mk("Co", <<Mk("Inv", <<Atom("B")>>)>>),
             Mk("Contra", <<Mk("Union", <<Atom("T"), Atom("Any")>>)>>),
             Mk("PContra", <<Mk("Union", <<Atom("T"), Atom("Any")>>)>>),
             Mk("Union", <<Atom("A"), Atom("B"), Atom("E")>>) }
SimpAtomsQ == <<"A", "B", "D", "E", "int", "bool", "float", "None", "Lit1", "LitTrue", "ColR", "ColG", "Col", "Any">>

\* ---- thorough universe (the driver adds seeded random depth-2 terms on top)
UArgsT == UArgsQ \cup {"C", "D", "str", "T", "Lit1", "Never", "object", "ImplB", "Col"}
TypeArgsT == TypeArgsQ \cup {"C", "object", "bool", "str"}
TupArgsT == TupArgsQ \cup {"None", "T", "Never"}
UnionArgsT == <<"A", "B", "E", "int", "None", "Lit1", "str", "T", "Any", "D", "float", "LitA", "TB", "Never", "ColR">>
FnArgsT == {"A", "B", "int"}
FnRetsT == {"A", "B", "None"}
VtItemsT == {"A", "B", "int"}
ExtrasT == ExtrasQ \cup { Mk("Inv", <<Mk("Inv", <<Atom("A")>>)>>),
                          Mk("Tuple2", <<Mk("Tuple2", <<Atom("A"), Atom("B")>>), Atom("int")>>),
                          Mk("TypeOf", <<Atom("ImplA")>>), Mk("TypeOf", <<Atom("Col")>>), Mk("TypeOf", <<Atom("NT")>>),
                          Mk("Union", <<Atom("ColR"), Atom("ColG")>>),
                          Mk("Union", <<Atom("LitTrue"), Atom("None")>>) }
SimpAtomsT == SimpAtomsQ \o <<"T", "TB", "object", "Never">>

====
