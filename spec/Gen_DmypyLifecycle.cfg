SPECIFICATION Spec
CONSTANTS
  MaxCmds = 4
INVARIANT Emit
INVARIANT ExitLeavesNoFile
