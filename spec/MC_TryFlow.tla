---- MODULE MC_TryFlow ----
EXTENDS TryFlow
====
