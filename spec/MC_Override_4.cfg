SPECIFICATION Spec
CONSTANT MaxClasses = 4
CONSTANT MaxBases = 2
CONSTANT Defs <- KindDefs
CONSTANT DoEmit = TRUE
CONSTANT Mutant = "none"
INVARIANT Sound
INVARIANT Emit
