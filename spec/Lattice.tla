------------------------------- MODULE Lattice -------------------------------
(* C08 -- the laws of mypy's type lattice, stated over relation TABLES that the harness extracts
   from the implementation (mypy/subtypes.py is_subtype / is_proper_subtype / is_same_type,
   mypy/join.py join_types, mypy/meet.py meet_types, mypy/typeops.py make_simplified_union).

   Two machines live in this module.

   (1) The TERM GENERATOR (GenSpec).  The universe of type terms is defined here, not in the
       harness: a term is a record [op, args]; atoms have args = <<>>.  One action per constructor
       family; every state reached is one term (or one union item list for the simplification
       law) and is emitted by the invariant Emit.  The harness prints each emitted term as a Python
       annotation into a module, lets a real mypy build analyse it and takes the Type objects from
       the symbol table.  The class hierarchy the module declares is emitted from `Bases`
       (DeclOut), so the reference relation SubRef below and the analysed program talk about the
       same classes.

   (2) The LAW CHECKER (LawSpec).  The observation tables are the definitions of module
       LatticeObs: spec/LatticeObs.tla holds the empty tables (generator runs); for a checking
       run the harness writes a LatticeObs.tla with the extracted tables next to a copy of this
       module (plain definitions: TLC evaluates them once; passing them as CONSTANT <- overrides
       made TLC re-evaluate the 2 MB literals at every access).  Terms are 1..N, all observed types (terms, joins, meets,
       simplified and raw unions) are 1..M.  SubRow[a] is the set of b with is_subtype(a, b) = True
       among the pairs that were asked (every pair of terms, and the pairs listed in AskedRow).
       PickS / PickT / PickU / PickSimp walk through all pairs, the pruned triples
       (Sub(s,t) /\ Sub(t,u), all three Any-free) and all observed simplifications; each law is an
       invariant (Laws = all of them).  A state that violates a law prints one machine-readable
       line per violated instance and is reported by TLC (the harness runs TLC with -continue so
       that all violations are listed, then re-confirms each on the real functions).

   SubRef is a reference subtype relation for the nominal core (classes with multiple
   inheritance, the int -> float promotion, None, Never, unions, fixed tuples, Type[C], literals)
   written from the documented rules.  It is a second opinion: Drift lists core pairs on which
   the implementation's table differs from it (reported in the evidence, never a verdict). *)
EXTENDS Naturals, Sequences, FiniteSets, TLC, Json, LatticeObs

CONSTANTS
  \* ------------------------------------------------ grammar of the universe (generator)
  Bases,        \* record: nominal class |-> set of direct base classes (user classes and builtins)
  UserClasses,  \* the classes the generated module has to declare
  Promotions,   \* set of <<c, d>>: c is promoted to d (int -> float)
  LitBase,      \* record: literal atom |-> its fallback class
  OtherAtoms,   \* atoms outside the nominal core (protocols, TypedDicts, enum, type variables, ...)
  UOps, UArgs,  \* unary constructors and their argument atoms
  TypeArgs,     \* argument atoms of Type[.]
  TupArgs,      \* argument atoms of Tuple[., .]
  UnionArgs,    \* SEQUENCE of argument atoms of Union[., .] (unordered pairs i < j)
  FnKinds, FnArgs, FnRets,   \* callables: one parameter of every kind
  VtItems,      \* item types of the variadic / fixed tuple family (GenVarTup, GenFixedTup)
  Extras,       \* set of further terms given explicitly (nested or irregular shapes)
  SimpAtoms     \* SEQUENCE of atoms whose 3- and 4-element sub-lists are union item lists

VARIABLES ph, term, s, t, u, k
vars == <<ph, term, s, t, u, k>>

None == [op |-> "", args |-> <<>>]

\* =========================================================================== terms
Atom(a) == [op |-> a, args |-> <<>>]
Mk(o, as) == [op |-> o, args |-> as]
Classes == DOMAIN Bases
Lits == DOMAIN LitBase
CoreAtoms == Classes \cup Lits \cup {"None", "Never"}
Atoms == CoreAtoms \cup OtherAtoms

\* every generator action leaves the law checker's variables alone
GenAtom  == /\ ph = "start" /\ ph' = "term" /\ UNCHANGED <<s, t, u, k>>
            /\ \E a \in Atoms : term' = Atom(a)
GenUnary == /\ ph = "start" /\ ph' = "term" /\ UNCHANGED <<s, t, u, k>>
            /\ \E o \in UOps, a \in UArgs : term' = Mk(o, <<Atom(a)>>)
GenType  == /\ ph = "start" /\ ph' = "term" /\ UNCHANGED <<s, t, u, k>>
            /\ \E a \in TypeArgs : term' = Mk("TypeOf", <<Atom(a)>>)
GenTuple == /\ ph = "start" /\ ph' = "term" /\ UNCHANGED <<s, t, u, k>>
            /\ \E a \in TupArgs, b \in TupArgs : term' = Mk("Tuple2", <<Atom(a), Atom(b)>>)
GenUnion == /\ ph = "start" /\ ph' = "term" /\ UNCHANGED <<s, t, u, k>>
            /\ \E i \in 1..Len(UnionArgs), j \in 1..Len(UnionArgs) :
                  i < j /\ term' = Mk("Union", <<Atom(UnionArgs[i]), Atom(UnionArgs[j])>>)
GenFn    == /\ ph = "start" /\ ph' = "term" /\ UNCHANGED <<s, t, u, k>>
            /\ \E o \in FnKinds, a \in FnArgs, r \in FnRets : term' = Mk(o, <<Atom(a), Atom(r)>>)
\* variadic tuples Tuple[a.., *Tuple[m, ...], b..] with 0..2 fixed items before and 0..2 after the
\* unpack, in every (unequal) combination: op VT<p> has p prefix items, then m, then the suffix items
VTOp == <<"VT0", "VT1", "VT2">>
Rep(a, n) == [i \in 1..n |-> Atom(a)]
GenVarTup == /\ ph = "start" /\ ph' = "term" /\ UNCHANGED <<s, t, u, k>>
             /\ \E p \in 0..2, q \in 0..2, a \in VtItems, m \in VtItems, b \in VtItems :
                   term' = Mk(VTOp[p + 1], Rep(a, p) \o <<Atom(m)>> \o Rep(b, q))
\* ... and the fixed tuples of the matching lengths (length 2 is GenTuple's)
GenFixedTup == /\ ph = "start" /\ ph' = "term" /\ UNCHANGED <<s, t, u, k>>
               /\ \/ \E a \in VtItems : term' = Mk("Tuple1", <<Atom(a)>>)
                  \/ \E a \in VtItems, b \in VtItems : term' = Mk("Tuple2", <<Atom(a), Atom(b)>>)
                  \/ \E a \in VtItems, b \in VtItems, c \in VtItems : term' = Mk("Tuple3", <<Atom(a), Atom(b), Atom(c)>>)
                  \/ \E a \in VtItems, b \in VtItems : term' = Mk("Tuple4", <<Atom(a), Atom(a), Atom(b), Atom(b)>>)
GenExtra == /\ ph = "start" /\ ph' = "term" /\ UNCHANGED <<s, t, u, k>>
            /\ \E x \in Extras : term' = x
\* union item lists for the simplification law: strictly increasing index lists of length 3 and 4
GenItems == /\ ph = "start" /\ ph' = "term" /\ UNCHANGED <<s, t, u, k>>
            /\ \E a \in 1..Len(SimpAtoms), b \in 1..Len(SimpAtoms), c \in 1..Len(SimpAtoms), d \in 0..Len(SimpAtoms) :
                  /\ a < b /\ b < c /\ (d = 0 \/ c < d)
                  /\ term' = Mk("Items", IF d = 0 THEN <<Atom(SimpAtoms[a]), Atom(SimpAtoms[b]), Atom(SimpAtoms[c])>>
                                         ELSE <<Atom(SimpAtoms[a]), Atom(SimpAtoms[b]), Atom(SimpAtoms[c]), Atom(SimpAtoms[d])>>)

GenInit == ph = "start" /\ term = None /\ s = 0 /\ t = 0 /\ u = 0 /\ k = 0
GenNext == GenAtom \/ GenUnary \/ GenType \/ GenTuple \/ GenUnion \/ GenFn \/ GenVarTup \/ GenFixedTup \/ GenExtra \/ GenItems
GenSpec == GenInit /\ [][GenNext]_vars

Emit == ph = "term" => PrintT(<<"TERM", ToJson(term)>>)
\* the declarations the generated module needs (printed once, from the initial state)
DeclOut == ph = "start" => PrintT(<<"DECL", ToJson([c \in UserClasses |-> Bases[c]])>>)

\* =========================================================================== reference relation
CoreOps == {"Union", "Opt", "Tuple2", "TypeOf"}
RECURSIVE IsCore(_)
IsCore(x) == IF x.args = <<>> THEN x.op \in CoreAtoms
             ELSE /\ x.op \in CoreOps
                  /\ \A i \in 1..Len(x.args) : IsCore(x.args[i])
                  /\ (x.op = "TypeOf" => x.args[1].op \in Classes)

RECURSIVE Anc(_)
Anc(c) == {c} \cup UNION {Anc(b) : b \in Bases[c]}
\* nominal subtyping: object is the top; d is an ancestor; or an ancestor of c is promoted to a
\* subtype of d (subtypes.py visit_instance: `for base in left.type.mro: if base._promote ...`)
RECURSIVE ClassSub(_, _)
ClassSub(c, d) == \/ d = "object"
                  \/ d \in Anc(c)
                  \/ \E p \in Promotions : p[1] \in Anc(c) /\ ClassSub(p[2], d)

IsClass(x) == x.args = <<>> /\ x.op \in Classes
IsLit(x) == x.args = <<>> /\ x.op \in Lits
IsUnion(x) == x.op \in {"Union", "Opt"}
Items(x) == IF x.op = "Opt" THEN <<x.args[1], Atom("None")>> ELSE x.args

RECURSIVE SubRef(_, _)
SubRef(x, y) ==
  CASE x.op = "Never" -> TRUE
    [] IsUnion(x) -> \A i \in 1..Len(Items(x)) : SubRef(Items(x)[i], y)
    [] y.op = "object" -> TRUE
    [] IsUnion(y) -> \E i \in 1..Len(Items(y)) : SubRef(x, Items(y)[i])
    [] IsClass(x) /\ IsClass(y) -> ClassSub(x.op, y.op)
    [] IsLit(x) /\ IsLit(y) -> x.op = y.op
    [] IsLit(x) /\ IsClass(y) -> ClassSub(LitBase[x.op], y.op)
    [] x.op = "None" /\ y.op = "None" -> TRUE
    [] x.op = "Tuple2" /\ y.op = "Tuple2" -> SubRef(x.args[1], y.args[1]) /\ SubRef(x.args[2], y.args[2])
    [] x.op = "TypeOf" /\ y.op = "TypeOf" -> SubRef(x.args[1], y.args[1])
    [] OTHER -> FALSE

\* =========================================================================== law checker
T == 1..N
Sub(a, b) == b \in SubRow[a]
PSub(a, b) == b \in PSubRow[a]
Asked(a, b) == (a <= N /\ b <= N) \/ b \in AskedRow[a]

LawInit == ph = "start" /\ term = None /\ s = 0 /\ t = 0 /\ u = 0 /\ k = 0
\* (a run checks the rows s in SRange: the harness may split a large table into row blocks)
PickS == ph = "start" /\ ph' = "one" /\ s' \in SRange /\ UNCHANGED <<term, t, u, k>>
PickT == ph = "one" /\ ph' = "two" /\ t' \in T /\ UNCHANGED <<term, s, u, k>>
\* only the triples transitivity talks about: Any-free, Sub(s,t) and Sub(t,u)
PickU == /\ ph = "two" /\ s \in AnyFree /\ t \in AnyFree /\ Sub(s, t)
         /\ ph' = "three" /\ u' \in (SubRow[t] \cap AnyFree) /\ UNCHANGED <<term, s, t, k>>
PickSimp == ph = "start" /\ ph' = "simp" /\ k' \in 1..Len(SimpObs) /\ UNCHANGED <<term, s, t, u>>
LawNext == PickS \/ PickT \/ PickU \/ PickSimp
LawSpec == LawInit /\ [][LawNext]_vars

\* Each law yields the set of its violated instances in the current state (empty = law holds).
V(law, rec) == {[law |-> law, at |-> rec]}

\* subtyping is reflexive
ReflexiveV == IF ph = "one" /\ ~Sub(s, s) THEN V("reflexive", <<s>>) ELSE {}
\* proper subtyping implies subtyping
ProperImpliesSubV == IF ph = "two" /\ PSub(s, t) /\ ~Sub(s, t) THEN V("proper-implies-sub", <<s, t>>) ELSE {}
\* on types not containing Any, subtyping is transitive (PickU only builds such triples)
TransitiveV == IF ph = "three" /\ ~Sub(s, u) THEN V("transitive", <<s, t, u>>) ELSE {}
\* the join is a supertype of both arguments; (s,t) and (t,s) are different states: either order
JoinUpperV == IF ph # "two" THEN {} ELSE LET j == JoinT[s][t] IN
                 (IF Asked(s, j) /\ Sub(s, j) THEN {} ELSE V("join-left", <<s, t, j>>))
                 \cup (IF Asked(t, j) /\ Sub(t, j) THEN {} ELSE V("join-right", <<s, t, j>>))
\* the meet is a subtype of both arguments
MeetLowerV == IF ph # "two" THEN {} ELSE LET m == MeetT[s][t] IN
                 (IF Asked(m, s) /\ Sub(m, s) THEN {} ELSE V("meet-left", <<s, t, m>>))
                 \cup (IF Asked(m, t) /\ Sub(m, t) THEN {} ELSE V("meet-right", <<s, t, m>>))
\* simplification is equivalent to the unsimplified union for every item order
SimplifyEquivV == IF ph # "simp" THEN {} ELSE LET o == SimpObs[k] IN
                 UNION { IF Asked(x.r, o.raw) /\ Sub(x.r, o.raw) /\ Asked(o.raw, x.r) /\ Sub(o.raw, x.r)
                         THEN {} ELSE V("simplify", <<k, x.r, o.raw>>) : x \in o.res }

Reflexive == ReflexiveV = {}
ProperImpliesSub == ProperImpliesSubV = {}
Transitive == TransitiveV = {}
JoinUpper == JoinUpperV = {}
MeetLower == MeetLowerV = {}
SimplifyEquiv == SimplifyEquivV = {}

\* The invariant the law-checking run uses: all six laws.  TLC stops evaluating the invariants of a
\* state at the first violated one, which would hide a broken meet behind a broken join of the same
\* pair; so every violated instance of the state is printed (machine-readable) before the verdict.
Violations == ReflexiveV \cup ProperImpliesSubV \cup TransitiveV \cup JoinUpperV \cup MeetLowerV \cup SimplifyEquivV
Laws == /\ {PrintT(<<"VIOL", ToJson(x)>>) : x \in Violations} \subseteq {TRUE}
        /\ Violations = {}

\* second opinion: the nominal core against the reference relation (never a verdict)
Drift == (ph = "two" /\ IsCore(TermOf[s]) /\ IsCore(TermOf[t])
          /\ SubRef(TermOf[s], TermOf[t]) # Sub(s, t))
            => PrintT(<<"DRIFT", ToJson([s |-> s, t |-> t, ref |-> SubRef(TermOf[s], TermOf[t])])>>)
CoreOut == (ph = "one" /\ IsCore(TermOf[s])) => PrintT(<<"CORE", s>>)
\* is_same_type is mutual proper subtyping by definition (evidence only)
SameDrift == (ph = "two" /\ (t \in SameRow[s]) # (PSub(s, t) /\ PSub(t, s)))
               => PrintT(<<"SAMEDRIFT", ToJson([s |-> s, t |-> t])>>)

\* shape of the tables
TablesOK == /\ N <= M /\ Len(SubRow) = M /\ Len(AskedRow) = M
            /\ Len(PSubRow) = N /\ Len(SameRow) = N /\ Len(TermOf) = N
            /\ Len(JoinT) = N /\ Len(MeetT) = N
            /\ SRange \subseteq 1..N
            /\ \A i \in SRange : Len(JoinT[i]) = N /\ Len(MeetT[i]) = N
            /\ AnyFree \subseteq 1..N
ASSUME TablesOK
=============================================================================
