SPECIFICATION Spec
CONSTANT Lens <- LensA
INVARIANT PrefixOK
INVARIANT AllAtEnd
INVARIANT Emit
