SPECIFICATION Spec
CONSTANTS
  Paths <- PathsDef
  Contents <- ContentsDef
  CoarseClock = FALSE
  MaxEnv = 4
  MaxOps = 4
VIEW mcview
INVARIANT Exact
INVARIANT SnapCoherent
