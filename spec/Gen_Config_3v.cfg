SPECIFICATION GenSpec
CONSTANTS
  Patterns <- PatsA
  ModSeq <- Mods39
  ValSeq <- Vals3
  Default = "d"
  MaxSections = 2
  FirstPats <- PatsA
  Letters <- L3
  SortWildcards = TRUE
  WildcardsFirst = TRUE
  LastGlobWins = TRUE
  LeadingStarZero = TRUE
INVARIANT Emit
