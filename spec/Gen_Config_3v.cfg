SPECIFICATION GenSpec
CONSTANTS
  Patterns <- PatsA
  ModSeq <- Mods39
  ValSeq <- Vals3
  Default = "d"
  MaxSections = 2
  FirstPats <- PatsA
  Letters <- L3
  SortWildcards = TRUE
  WildcardsFirst = TRUE
  LastGlobWins = TRUE
  LeadingStarZero = TRUE
  Umbrella = FALSE
  UVal = "p"
  UmbrellaAfterConfig = TRUE
INVARIANT Emit
