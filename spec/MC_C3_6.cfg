SPECIFICATION Spec
CONSTANTS
  N = 6
  UseBaseList = TRUE
INVARIANT WellFormed
INVARIANT LocalPrecedence
INVARIANT Monotone
INVARIANT FirstBaseNext
INVARIANT ChainsLinearise
