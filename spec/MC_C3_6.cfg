SPECIFICATION Spec
CONSTANT N = 6
INVARIANT WellFormed
INVARIANT LocalPrecedence
INVARIANT Monotone
INVARIANT ChainsLinearise
