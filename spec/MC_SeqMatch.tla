---- MODULE MC_SeqMatch ----
EXTENDS SeqMatch
Fix(items) == [k |-> "fix", pre |-> items, star |-> "-", suf |-> <<>>]
Var(pre, star, suf) == [k |-> "var", pre |-> pre, star |-> star, suf |-> suf]
Hom(x) == [k |-> "hom", pre |-> <<>>, star |-> x, suf |-> <<>>]
Lst(x) == [k |-> "list", pre |-> <<>>, star |-> x, suf |-> <<>>]
FixTypes == {Fix(<<>>), Fix(<<"I">>), Fix(<<"S">>), Fix(<<"I", "I">>), Fix(<<"I", "S">>), Fix(<<"I", "S", "I">>)}
VarTypes == {Var(<<"I">>, "I", <<>>), Var(<<"I">>, "S", <<>>), Var(<<>>, "I", <<"S">>), Var(<<>>, "S", <<"I">>),
             Var(<<"I">>, "S", <<"I">>), Var(<<"I", "S">>, "I", <<>>), Var(<<>>, "I", <<"I", "S">>)}
SeqTypes == {Hom("I"), Hom("S"), Lst("I"), Lst("S")}
AllTypes == FixTypes \cup VarTypes \cup SeqTypes
UTypes == {Fix(<<>>), Fix(<<"I">>), Fix(<<"S", "S">>), Fix(<<"I", "S">>), Hom("S")}
AllItems == {"cap", "wild", "lit0", "int", "str", "scap", "swild"}
FewItems == {"cap", "lit0", "swild"}
CapItems == {"cap", "lit0", "scap"}
StarItems == {"cap", "scap", "int"}
TupTypes == FixTypes \cup VarTypes
NoTypes == {}
PlainTypes == FixTypes \cup SeqTypes
====
