SPECIFICATION Spec
CONSTANT Classes <- E0_Classes
CONSTANT Vars <- S1_Vars
CONSTANT ParamTypes <- E0_Param
CONSTANT LocalTypes <- None
CONSTANT RetTypes <- S1_Ret
CONSTANT HelperTypes <- S2_Helper
CONSTANT CondKinds <- E0_Conds
CONSTANT LoopCondKinds <- Opq
CONSTANT StmtKinds <- E0_Kinds
CONSTANT MaxStmts = 2
CONSTANT MaxDepth = 2
CONSTANT DoRun = TRUE
CONSTANT DoEmit = TRUE
CONSTANT Mutant = "none"
CONSTANT FlagAwareJoin = TRUE
CONSTANT AsgToks <- E0_Asg
CONSTANT IfVars <- S1_Vars
CONSTANT LoopVars <- S1_Vars
CONSTANT HeaderExprs <- AllHeaderExprs
INVARIANT MemberOK
INVARIANT RevealOK
INVARIANT ReachOK
INVARIANT NoWrong
INVARIANT BinderShape
INVARIANT Balanced
INVARIANT Emit
