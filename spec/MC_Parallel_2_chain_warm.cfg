SPECIFICATION Spec
CONSTANTS
  N = 2
  Shape = "chain"
  StaleKind = "warm"
  ReplyBeforeCommit = FALSE
  DoneAtSubmit = FALSE
VIEW mcview
INVARIANT ReadsCommitted
INVARIANT NoPrematureSubmit
INVARIANT EachStaleOnce
INVARIANT ErrorsOnce
INVARIANT AtEnd
PROPERTY SubmittedDepsDone
