SPECIFICATION Spec
CONSTANT Classes <- S2_Classes
CONSTANT Vars <- S1_Vars
CONSTANT ParamTypes <- S2_Param
CONSTANT LocalTypes <- None
CONSTANT RetTypes <- R1_Ret
CONSTANT HelperTypes <- S2_Helper
CONSTANT CondKinds <- S2_Conds
CONSTANT LoopCondKinds <- Opq
CONSTANT StmtKinds <- R1_Kinds
CONSTANT MaxStmts = 3
CONSTANT MaxDepth = 2
CONSTANT DoRun = TRUE
CONSTANT DoEmit = TRUE
CONSTANT Mutant = "none"
CONSTANT FlagAwareJoin = TRUE
CONSTANT AsgToks <- AllAsg
CONSTANT IfVars <- S1_Vars
CONSTANT LoopVars <- S1_Vars
CONSTANT HeaderExprs <- AllHeaderExprs
INVARIANT MemberOK
INVARIANT RevealOK
INVARIANT ReachOK
INVARIANT NoWrong
INVARIANT BinderShape
INVARIANT Balanced
INVARIANT Emit
