SPECIFICATION Spec
CONSTANTS
  Seeds <- SeedsDef
  Worlds <- WorldsDef
  PriorOpts <- PriorOptsDef
  NFiles = 3
  MaxPrior = 2
INVARIANT Deterministic
INVARIANT WarmSame
INVARIANT Emit
CHECK_DEADLOCK FALSE
