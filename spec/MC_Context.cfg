SPECIFICATION Spec
CONSTANTS
  Seeds <- SeedsDef
  Worlds <- WorldsDef
  NFiles = 3
  MaxPrior = 2
INVARIANT Deterministic
INVARIANT Emit
