SPECIFICATION Spec
CONSTANTS
  Seeds <- SeedsDef
  Worlds <- WorldsDef
  PriorOpts <- PriorOptsDef
  MeasuredOpts <- MeasuredOptsDef
  SlowWorlds <- SlowWorldsDef
  NFiles = 3
  MaxPrior = 2
INVARIANT Deterministic
INVARIANT WarmSame
INVARIANT Emit
CHECK_DEADLOCK FALSE
