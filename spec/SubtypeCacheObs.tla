---- MODULE SubtypeCacheObs ----
(* Tables of the C08 subtype-cache model (see SubtypeCache.tla).  This file is a small
   HAND-WRITTEN instance (so that the specification can be parsed and model-checked on its own);
   for a checking run the harness generates a module of the same name, with the tables extracted
   from the implementation, into a scratch directory next to a copy of SubtypeCache.tla.

   The instance: pair 1 = (int, float), pair 2 = (Inv[int], Inv[float]).  int is a subtype of
   float only through the promotion, so the answer flips with ignore_promotions (flag 7);
   Inv[int] vs Inv[float] asks both directions of pair 1 ... here only the forward one. *)
NE == 6
\*            so    proper itp   ipan  idv   ac    ip    ei    ket
EntKind == << <<TRUE, FALSE, FALSE, FALSE, FALSE, FALSE, FALSE, FALSE, FALSE>>,   \* 1: int <: float
              <<TRUE, FALSE, FALSE, FALSE, FALSE, FALSE, TRUE,  FALSE, FALSE>>,   \* 2: ... ignoring promotions
              <<TRUE, TRUE,  FALSE, FALSE, FALSE, FALSE, FALSE, FALSE, FALSE>>,   \* 3: proper
              <<TRUE, FALSE, FALSE, FALSE, FALSE, TRUE,  FALSE, FALSE, FALSE>>,   \* 4: Inv[int] <: Inv[float], always covariant
              <<TRUE, FALSE, FALSE, FALSE, FALSE, TRUE,  TRUE,  FALSE, FALSE>>,   \* 5: ... ignoring promotions
              <<TRUE, FALSE, FALSE, FALSE, FALSE, TRUE,  FALSE, FALSE, FALSE>> >> \* 6: int <: float asked by 4
EntPair == <<1, 1, 1, 2, 2, 1>>
Truth == {1, 3, 4, 6}
RecPos == <<{1}, {}, {3}, {4}, {}, {6}>>
RecNeg == <<{}, {2}, {}, {}, {5}, {}>>
Child == <<{}, {}, {}, {6}, {}, {}>>
PairInfo == <<"builtins.float", "m.Inv">>
PairCacheable == <<TRUE, TRUE>>
Groups == << {1, 2, 3}, {4, 5, 6} >>
====
