SPECIFICATION Spec
INVARIANT Emit
