---- MODULE MC_Override ----
EXTENDS Override
AllDefs == {"none", "attrA", "attrB", "roA", "roB", "rwA", "rwB"}
KindDefs == {"none", "attrA", "roA", "rwA"}
====
