---------------------------- MODULE ArgBind ----------------------------
(* CPython's rule for binding the arguments of a call to the parameters of a Python function
   (Objects/call.c + Python/ceval.c: the caller flattens *iterables and merges **mappings,
   initialize_locals() fills the slots), transcribed so that mypy's static model of it
   (mypy/argmap.py map_actuals_to_formals, mypy/checkexpr.py check_argument_count /
   check_for_extra_actual_arguments) can be compared with it on every bounded input.

   Inputs are generated stepwise:
     AddParam   appends one parameter to the signature (only well-formed orders:
                pos-only*  pos-or-kw*  [*args]  kw-only*  [**kw];  a positional parameter without
                default never follows one with a default)
     AddActual  appends one actual to the call (only what the grammar of calls allows: no
                positional after a keyword or a **mapping, no *iterable after a **mapping, no
                explicit keyword twice).  With WithUnknown the alphabet also has actuals whose
                CONTENT is not known statically: `*list` (any length) and `**dict` (any keys), at most
                MaxUnknown of them per call.  Such a call stands for all its concretisations and the
                rule gives a quantified verdict: it binds for ALL contents (mypy must accept), it
                raises TypeError for ALL contents (mypy must reject), or it depends (no claim).
   The i-th parameter is called Names[i]; keywords / TypedDict keys range over Names plus one
   name no signature has.  All values are indistinguishable (the property is about binding only).

   The rule is evaluated for the call of the current state against EVERY signature (the
   signature set is built by the same AllowedNext relation the AddParam action uses), so a
   TLC run covers the full product  signatures x calls.

   Steps of the real algorithm -> operators:
     caller:  NGiven        positional values after flattening *tuples
              KwCount       keyword names after merging explicit keywords and **mappings;
                            a name seen twice is "got multiple values for keyword argument"
     callee:  Filled        positional values fill pos-only / pos-or-kw slots left to right,
                            the rest goes to *args or is "takes N positional arguments but M were given"
              KwErr         each keyword: slot of that name (pos-or-kw or kw-only) -> filled twice is
                            "got multiple values for argument"; no such slot -> **kw takes it, else
                            "positional-only arguments passed as keyword" / "unexpected keyword argument"
              MissingPos / MissingKw   unfilled slots without default
*)
EXTENDS Naturals, Sequences, FiniteSets, TLC, Json, SequencesExt

CONSTANTS NP,        \* max number of parameters
          NA,        \* max number of actuals
          MaxStar,   \* *tuple lengths 0..MaxStar
          MaxTD,     \* **TypedDict key sets of size 0..MaxTD
          GenSigs    \* TRUE: the AddParam action is enabled (signature grammar explored as states too)

Names == <<"a", "b", "c", "d">>
Unknown == "z"
CallNames == {Names[i] : i \in 1..NP} \cup {Unknown}

VARIABLES sig, call, phase
vars == <<sig, call, phase>>

\* ------------------------------------------------------------------ signatures
Rank(k) == CASE k = "PO" -> 0 [] k = "PK" -> 1 [] k = "VA" -> 2 [] k = "KO" -> 3 [] k = "VK" -> 4
Param(k, d) == [k |-> k, d |-> d]
HasDefaultedPositional(s) == \E i \in DOMAIN s : s[i].k \in {"PO", "PK"} /\ s[i].d
AllowedNext(s) ==
  { p \in [k : {"PO", "PK", "VA", "KO", "VK"}, d : BOOLEAN] :
      /\ (p.k \in {"VA", "VK"} => ~p.d)
      /\ (Len(s) > 0 => /\ Rank(p.k) >= Rank(s[Len(s)].k)
                        /\ (p.k \in {"VA", "VK"} => p.k # s[Len(s)].k))
      /\ (p.k \in {"PO", "PK"} /\ ~p.d => ~HasDefaultedPositional(s)) }

SigsOfLen[n \in 0..NP] ==
  IF n = 0 THEN {<<>>} ELSE UNION { {Append(s, p) : p \in AllowedNext(s)} : s \in SigsOfLen[n - 1] }
Sigs == UNION {SigsOfLen[n] : n \in 0..NP}
SigSeq == SetToSeq(Sigs)

\* ------------------------------------------------------------------ calls
Act(k, n, l, ks) == [k |-> k, n |-> n, l |-> l, ks |-> ks]
KeySets == {ks \in SUBSET CallNames : Cardinality(ks) <= MaxTD}
\* actuals of statically unknown content ("L" = *list[int], "M" = **dict[str, int]); a configuration
\* switches them on by overriding WithUnknown (configurations of other checks keep the plain alphabet)
WithUnknown == FALSE
MaxUnknown == 2
Actuals == {Act("P", "", 0, {})}
           \cup {Act("K", n, 0, {}) : n \in CallNames}
           \cup {Act("S", "", l, {}) : l \in 0..MaxStar}
           \cup {Act("D", "", 0, ks) : ks \in KeySets}
           \cup (IF WithUnknown THEN {Act("L", "", 0, {}), Act("M", "", 0, {})} ELSE {})
SeenKw(c) == \E i \in DOMAIN c : c[i].k = "K"
SeenD(c) == \E i \in DOMAIN c : c[i].k \in {"D", "M"}
NUnknown(c) == Cardinality({i \in DOMAIN c : c[i].k \in {"L", "M"}})
AllowedActual(c) ==
  { a \in Actuals :
      /\ (a.k = "P" => ~SeenKw(c) /\ ~SeenD(c))     \* SyntaxError: positional argument follows keyword argument [unpacking]
      /\ (a.k \in {"S", "L"} => ~SeenD(c))           \* SyntaxError: iterable argument unpacking follows keyword argument unpacking
      /\ (a.k = "K" => \A i \in DOMAIN c : ~(c[i].k = "K" /\ c[i].n = a.n))   \* SyntaxError: keyword argument repeated
      /\ (a.k \in {"L", "M"} => NUnknown(c) < MaxUnknown) }

\* ------------------------------------------------------------------ the binding rule
RECURSIVE SumSeq(_)
SumSeq(s) == IF s = <<>> THEN 0 ELSE Head(s) + SumSeq(Tail(s))
\* ---- caller side: what the call supplies (computed once per call)
NGiven(c) == SumSeq([i \in DOMAIN c |-> IF c[i].k = "P" THEN 1 ELSE IF c[i].k = "S" THEN c[i].l ELSE 0])
KwCount(c, n) == SumSeq([i \in DOMAIN c |-> IF (c[i].k = "K" /\ c[i].n = n) \/ (c[i].k = "D" /\ n \in c[i].ks) THEN 1 ELSE 0])
Supplied(c) == [ng  |-> NGiven(c),
                kw  |-> {n \in CallNames : KwCount(c, n) > 0},
                dup |-> \E n \in CallNames : KwCount(c, n) > 1]

\* ---- callee side
PosParams(s) == {i \in DOMAIN s : s[i].k \in {"PO", "PK"}}
NPos(s) == Cardinality(PosParams(s))
HasVA(s) == \E i \in DOMAIN s : s[i].k = "VA"
HasVK(s) == \E i \in DOMAIN s : s[i].k = "VK"
Filled(s, u, i) == s[i].k \in {"PO", "PK"} /\ i <= u.ng
\* the slot a keyword of that name can fill (0 = none): only pos-or-kw and kw-only parameters
KwSlot(s, n) == IF \E i \in DOMAIN s : Names[i] = n /\ s[i].k \in {"PK", "KO"}
                THEN CHOOSE i \in DOMAIN s : Names[i] = n /\ s[i].k \in {"PK", "KO"} ELSE 0
IsPosOnlyName(s, n) == \E i \in DOMAIN s : Names[i] = n /\ s[i].k = "PO"

ErrDupKw(s, u) == u.dup
ErrTooMany(s, u) == u.ng > NPos(s) /\ ~HasVA(s)
ErrMultiple(s, u) == \E n \in u.kw : KwSlot(s, n) # 0 /\ Filled(s, u, KwSlot(s, n))
ErrPosOnlyKw(s, u) == ~HasVK(s) /\ \E n \in u.kw : KwSlot(s, n) = 0 /\ IsPosOnlyName(s, n)
ErrUnexpected(s, u) == ~HasVK(s) /\ \E n \in u.kw : KwSlot(s, n) = 0 /\ ~IsPosOnlyName(s, n)
ErrMissingPos(s, u) == \E i \in DOMAIN s : /\ s[i].k \in {"PO", "PK"} /\ ~s[i].d /\ ~Filled(s, u, i)
                                           /\ ~(s[i].k = "PK" /\ Names[i] \in u.kw)
ErrMissingKw(s, u) == \E i \in DOMAIN s : s[i].k = "KO" /\ ~s[i].d /\ Names[i] \notin u.kw

\* bit mask of all error conditions that hold (CPython reports one of them); 0 = the call binds
B(b, v) == IF b THEN v ELSE 0
ErrorsU(s, u) == B(ErrDupKw(s, u), 1) + B(ErrTooMany(s, u), 2) + B(ErrMultiple(s, u), 4)
                 + B(ErrPosOnlyKw(s, u), 8) + B(ErrUnexpected(s, u), 16)
                 + B(ErrMissingPos(s, u), 32) + B(ErrMissingKw(s, u), 64)
Errors(s, c) == ErrorsU(s, Supplied(c))
Binds(s, c) == Errors(s, c) = 0

\* ---- calls with actuals of unknown content: everything such a call can supply.
\* A *list contributes 0 .. NPos+1 positional values (more make no difference), a **dict any set of
\* keywords; per name only "not given / once / more than once" matters.
Cap(n, m) == IF n > m THEN m ELSE n
SupplyOf(a) ==      \* what one actual can contribute: [ng, kw] with kw the set of names it supplies
  CASE a.k = "P" -> {[ng |-> 1, kw |-> {}]}
    [] a.k = "K" -> {[ng |-> 0, kw |-> {a.n}]}
    [] a.k = "S" -> {[ng |-> a.l, kw |-> {}]}
    [] a.k = "D" -> {[ng |-> 0, kw |-> a.ks]}
    [] a.k = "L" -> {[ng |-> n, kw |-> {}] : n \in 0..(NP + 1)}
    [] a.k = "M" -> {[ng |-> 0, kw |-> ks] : ks \in SUBSET CallNames}
RECURSIVE SupplySet(_)
SupplySet(c) ==     \* summaries [ng, once, twice] of all concretisations of c
  IF c = <<>> THEN {[ng |-> 0, once |-> {}, twice |-> {}]}
  ELSE LET n == Len(c)
           rest == SupplySet(SubSeq(c, 1, n - 1))
       IN {[ng |-> Cap(u.ng + o.ng, NP + 1),
            once |-> u.once \cup o.kw,
            twice |-> u.twice \cup (u.once \cap o.kw)] : u \in rest, o \in SupplyOf(c[n])}
AsSupplied(x) == [ng |-> x.ng, kw |-> x.once, dup |-> x.twice # {}]
\* 0 = binds whatever the contents, 1 = raises TypeError whatever the contents, 2 = depends on the contents
Quantified(s, c) == LET us == {AsSupplied(x) : x \in SupplySet(c)}
                    IN IF \A u \in us : ErrorsU(s, u) = 0 THEN 0
                       ELSE IF \A u \in us : ErrorsU(s, u) # 0 THEN 1 ELSE 2

\* ------------------------------------------------------------------ behaviour
Init == sig = <<>> /\ call = <<>> /\ phase = "start"
AddParam == /\ GenSigs /\ phase \in {"start", "sig"} /\ Len(sig) < NP
            /\ \E p \in AllowedNext(sig) : sig' = Append(sig, p)
            /\ phase' = "sig" /\ UNCHANGED call
AddActual == /\ phase \in {"start", "call"} /\ Len(call) < NA
             /\ \E a \in AllowedActual(call) : call' = Append(call, a)
             /\ phase' = "call" /\ UNCHANGED sig
Next == AddParam \/ AddActual
Spec == Init /\ [][Next]_vars

\* ------------------------------------------------------------------ properties of the rule
\* every signature reached by the actions is in the set the rule is evaluated over, and vice versa
SigsAgree == sig \in Sigs
\* declarative reading: a call binds iff there is a well-defined assignment -- every supplied value
\* has exactly one place to go and every parameter without default gets exactly one value
SrcPos(s, u, i) == Filled(s, u, i)
SrcKw(s, u, i) == s[i].k \in {"PK", "KO"} /\ Names[i] \in u.kw
WellDefined(s, u) ==
  /\ ~u.dup
  /\ (u.ng <= NPos(s) \/ HasVA(s))
  /\ \A n \in u.kw : (\E i \in DOMAIN s : Names[i] = n /\ s[i].k \in {"PK", "KO"}) \/ HasVK(s)
  /\ \A i \in DOMAIN s : s[i].k \in {"PO", "PK", "KO"} =>
        /\ ~(SrcPos(s, u, i) /\ SrcKw(s, u, i))
        /\ (~s[i].d => SrcPos(s, u, i) \/ SrcKw(s, u, i))
BindsIffWellDefined == LET u == Supplied(call) IN \A s \in Sigs : (ErrorsU(s, u) = 0) <=> WellDefined(s, u)
\* giving a parameter a default never turns an accepted call into a rejected one
DefaultsRelax == LET u == Supplied(call) IN
                 \A s \in Sigs : ErrorsU(s, u) = 0 =>
                    \A i \in DOMAIN s : LET t == [s EXCEPT ![i].d = TRUE] IN t \in Sigs => ErrorsU(t, u) = 0
\* without *args a bound call never supplies more positional values than there are positional slots
ArityMonotone == LET u == Supplied(call) IN \A s \in Sigs : (ErrorsU(s, u) = 0 /\ ~HasVA(s)) => u.ng <= NPos(s)

\* the quantified verdict of a call without unknown content is its verdict, and "raises for all
\* contents" in particular means that the all-empty contents raise
QuantifiedAgrees == \A s \in Sigs : LET q == Quantified(s, call) IN
                      /\ (NUnknown(call) = 0 => q = (IF Binds(s, call) THEN 0 ELSE 1))
                      /\ (q = 1 => ~Binds(s, call))
                      /\ (q = 0 => Binds(s, call))

\* ------------------------------------------------------------------ emission (Gen configs)
EmitSigs == phase = "start" => PrintT(<<"SIGS", ToJson(SigSeq)>>)
EmitCall == phase \in {"start", "call"} =>
              PrintT(<<"CALL", ToJson([c |-> call,
                                       v |-> LET u == Supplied(call) IN [i \in DOMAIN SigSeq |-> ErrorsU(SigSeq[i], u)],
                                       q |-> [i \in DOMAIN SigSeq |-> Quantified(SigSeq[i], call)]])>>)
=====================================================================
