SPECIFICATION Spec
CONSTANTS
  Fams = {"H", "L", "C", "R", "N"}
  HashVals = {"none", "m1", "m2", "0", "1", "big", "nbig", "raise"}
  EqVals = {"none", "T", "F", "NI"}
  LenVals = {"none", "0", "1", "m1", "big", "raise"}
  BoolVals = {"none", "T", "F", "raise"}
  CmpVals = {"none", "T", "F", "NI"}
  NumVals = {"none", "v", "NI"}
  NegOneIsMinusTwo = TRUE
INVARIANT HashNeverMinusOne
INVARIANT NotIsNegation
INVARIANT DefaultEqIsIdentity
INVARIANT NeDerivedFromEq
INVARIANT OrderingNeedsAnAnswer
INVARIANT AddRules
