SPECIFICATION Spec
CONSTANT Classes <- M_Classes
CONSTANT Vars <- S1_Vars
CONSTANT ParamTypes <- N0t_Param
CONSTANT LocalTypes <- None
CONSTANT RetTypes <- S1_Ret
CONSTANT HelperTypes <- S2_Helper
CONSTANT CondKinds <- N0t_Conds
CONSTANT LoopCondKinds <- Opq
CONSTANT StmtKinds <- N0t_Kinds
CONSTANT MaxStmts = 4
CONSTANT MaxDepth = 2
CONSTANT DoRun = TRUE
CONSTANT DoEmit = TRUE
CONSTANT Mutant = "none"
CONSTANT FlagAwareJoin = TRUE
CONSTANT AsgToks <- N0t_Asg
CONSTANT IfVars <- S1_Vars
CONSTANT LoopVars <- S1_Vars
CONSTANT HeaderExprs <- AllHeaderExprs
INVARIANT MemberOK
INVARIANT RevealOK
INVARIANT ReachOK
INVARIANT NoWrong
INVARIANT BinderShape
INVARIANT Balanced
INVARIANT Emit
