SPECIFICATION Spec
CONSTANTS
  Patterns <- PatsB
  ModSeq <- Mods39
  ValSeq <- Vals2
  Default = "d"
  MaxSections = 3
  FirstPats <- PatsB
  Letters <- L3
  SortWildcards = TRUE
  WildcardsFirst = TRUE
  LastGlobWins = TRUE
  LeadingStarZero = FALSE
  Umbrella = FALSE
  UVal = "p"
  UmbrellaAfterConfig = TRUE
INVARIANT TypeOK
INVARIANT ClassesAgree
INVARIANT MatchAgree
INVARIANT ParentsFirst
INVARIANT CacheAsDocumented
INVARIANT PrecedenceAsDocumented
