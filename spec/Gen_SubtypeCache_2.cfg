SPECIFICATION Spec
CONSTANTS
  KeyOf <- BuildSubtypeKind
  Ask = "single"
  MaxQ = 2
  MaxR = 1
INVARIANT Emit
