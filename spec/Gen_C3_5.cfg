SPECIFICATION Spec
CONSTANTS
  N = 5
  UseBaseList = TRUE
INVARIANT Emit
