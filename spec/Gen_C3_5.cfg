SPECIFICATION Spec
CONSTANT N = 5
INVARIANT Emit
