SPECIFICATION Spec
CONSTANTS
  NP = 2
  NA = 3
  MaxStar = 2
  MaxTD = 2
  GenSigs = TRUE
  WithUnknown <- UnknownOn
INVARIANT EmitSigs
INVARIANT EmitCall
