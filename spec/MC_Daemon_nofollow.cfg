SPECIFICATION Spec
CONSTANTS
  MaxEdits = 3
  MaxRequests = 4
  FollowIndirect = FALSE
  Follow = FALSE
VIEW mcview
INVARIANT RespondsLikeFresh
INVARIANT GraphIsBuild
