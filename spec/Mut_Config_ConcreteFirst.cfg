SPECIFICATION Spec
CONSTANTS
  Patterns <- PatsA
  ModSeq <- Mods39
  ValSeq <- Vals2
  Default = "d"
  MaxSections = 2
  FirstPats <- PatsA
  Letters <- L3
  SortWildcards = TRUE
  WildcardsFirst = FALSE
  LastGlobWins = TRUE
  LeadingStarZero = FALSE
  Umbrella = FALSE
  UVal = "p"
  UmbrellaAfterConfig = TRUE
INVARIANT ParentsFirst
INVARIANT PrecedenceAsDocumented
