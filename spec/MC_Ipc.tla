---- MODULE MC_Ipc ----
EXTENDS Ipc
LensA == <<1, 3, 2>>
LensB == <<2, 1>>
LensC == <<1, 1, 2, 1>>
====
