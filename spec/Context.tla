----------------------------- MODULE Context -----------------------------
(* C10: a build's result is a function of the files and options only.  The context a build
   runs in -- hash seed, the order in which the files are listed, which builds ran earlier in
   the same interpreter and with which options -- is state that no action of the build reads.
   The specification defines that configuration space (TLC enumerates it and emits every
   configuration) and the non-interference statement checked on the real code by the harness:

     PriorBuild   an unrelated build executed earlier in the same process (API reuse, daemon
                  restart of the build), possibly with OTHER options (target version, platform,
                  strictness): everything a build memoises process-wide must be keyed by what it
                  depends on, or reset at build start
     Build        the measured build, empty cache: prints `result`, writes `written`
     WarmBuild    the same build again on the cache it just wrote: every module is fresh, the
                  diagnostics are replayed from the records (for an import cycle: in the order
                  the cold build printed them)

   two Build steps on equal (world, opts) produce equal `result` and equal `written`, and the
   WarmBuild prints what the Build printed.
*)
EXTENDS Naturals, Sequences, FiniteSets, TLC, Json
CONSTANTS Seeds, Worlds, NFiles, MaxPrior, PriorOpts,
          MeasuredOpts,      \* options of the measured build itself ("default", or a non-default set: process-wide state that an
                             \* earlier DEFAULT build switched on must not leak into a build that asks for something else)
          SlowWorlds         \* worlds checked against the bundled typeshed: never used as prior builds, the only ones measured with non-default options
VARIABLES seed, order, prior, world, mopts, result, written, warm, phase
vars == <<seed, order, prior, world, mopts, result, written, warm, phase>>
Perms(n) == {p \in [1..n -> 1..n] : \A i, j \in 1..n : i # j => p[i] # p[j]}
\* the abstract build: depends on `world` and the measured build's own options alone
F(w) == [diag |-> w, records |-> w]
Init == /\ seed \in Seeds /\ world \in Worlds /\ order \in Perms(NFiles) /\ prior = <<>>
        /\ mopts \in MeasuredOpts /\ (mopts # "default" => world \in SlowWorlds)
        /\ result = "none" /\ written = "none" /\ warm = "none" /\ phase = "prior"
PriorBuild == /\ phase = "prior" /\ Len(prior) < MaxPrior
              /\ \E w \in Worlds \ SlowWorlds, o \in PriorOpts : prior' = Append(prior, [world |-> w, opts |-> o])
              /\ UNCHANGED <<seed, order, world, mopts, result, written, warm, phase>>
Build == /\ phase = "prior" /\ result' = F(<<world, mopts>>).diag /\ written' = F(<<world, mopts>>).records /\ phase' = "cold"
         /\ UNCHANGED <<seed, order, prior, world, mopts, warm>>
WarmBuild == /\ phase = "cold" /\ warm' = written /\ phase' = "done"
             /\ UNCHANGED <<seed, order, prior, world, mopts, result, written>>
Next == PriorBuild \/ Build \/ WarmBuild
Spec == Init /\ [][Next]_vars
\* non-interference: the outcome is determined by the world
Deterministic == phase # "prior" => (result = F(<<world, mopts>>).diag /\ written = F(<<world, mopts>>).records)
WarmSame == phase = "done" => warm = result
Emit == phase = "done" => PrintT(<<"CFG", ToJson([seed |-> seed, order |-> order, prior |-> prior, world |-> world, mopts |-> mopts])>>)
==========================================================================
