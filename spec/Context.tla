----------------------------- MODULE Context -----------------------------
(* C10: a build's result is a function of the files and options only.  The context a build
   runs in -- hash seed, the order in which the files are listed, which builds ran earlier in
   the same interpreter -- is state that no action of the build reads.  The specification
   defines that configuration space (TLC enumerates it and emits every configuration) and the
   non-interference statement checked on the real code by the harness:
       two Build steps on equal (world, opts) produce equal `result` and equal `written`.
*)
EXTENDS Naturals, Sequences, FiniteSets, TLC, Json
CONSTANTS Seeds, Worlds, NFiles, MaxPrior
VARIABLES seed, order, prior, world, result, written, done
vars == <<seed, order, prior, world, result, written, done>>
Perms(n) == {p \in [1..n -> 1..n] : \A i, j \in 1..n : i # j => p[i] # p[j]}
\* the abstract build: depends on `world` alone
F(w) == [diag |-> w, records |-> w]
Init == /\ seed \in Seeds /\ world \in Worlds /\ order \in Perms(NFiles) /\ prior = <<>>
        /\ result = "none" /\ written = "none" /\ done = FALSE
\* an unrelated build executed earlier in the same process (API reuse / daemon restart of the build)
PriorBuild == /\ ~done /\ Len(prior) < MaxPrior /\ \E w \in Worlds : prior' = Append(prior, w)
              /\ UNCHANGED <<seed, order, world, result, written, done>>
Build == /\ ~done /\ result' = F(world).diag /\ written' = F(world).records /\ done' = TRUE
         /\ UNCHANGED <<seed, order, prior, world>>
Next == PriorBuild \/ Build
Spec == Init /\ [][Next]_vars
\* non-interference: the outcome is determined by the world
Deterministic == done => (result = F(world).diag /\ written = F(world).records)
Emit == done => PrintT(<<"CFG", ToJson([seed |-> seed, order |-> order, prior |-> prior, world |-> world])>>)
==========================================================================
