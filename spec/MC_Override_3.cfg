SPECIFICATION Spec
CONSTANT MaxClasses = 3
CONSTANT MaxBases = 2
CONSTANT Defs <- AllDefs
CONSTANT DoEmit = TRUE
CONSTANT Mutant = "none"
INVARIANT Sound
INVARIANT Emit
