---- MODULE MC_Daemon ----
EXTENDS Daemon
====
