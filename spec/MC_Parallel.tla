---- MODULE MC_Parallel ----
EXTENDS Parallel
====
