SPECIFICATION Spec
CONSTANT MaxClasses = 3
CONSTANT MaxBases = 2
CONSTANT Defs <- AllDefs
CONSTANT DoEmit = FALSE
CONSTANT Mutant = "direct"
INVARIANT Sound
INVARIANT Emit
