---------------------------- MODULE CacheKey ----------------------------
(* Options as cache validity key (mypy/options.py OPTIONS_AFFECTING_CACHE, build.options_snapshot,
   find_cache_meta) with rendered diagnostics stored in the cache (CacheMetaEx.error_lines) and
   formatting options applied when cached diagnostics are replayed (find_stale_sccs ->
   Errors.format_messages).

   An option o is described by three facts, supplied as constants extracted from / measured on
   the code by the harness:
     InKey        o is part of the validity key (a different value invalidates the module)
     PostApplied  o only acts on the way stored diagnostics are printed, and is applied at replay
     Affects      toggling o changes the cold output of its witness program
   State: the value under which the cache was written, and the diagnostics stored, per option
   (options are independent: one option is toggled at a time).
   Run(v): hit iff the key agrees; on a hit the stored diagnostics are replayed (with the current
   print options), otherwise the module is re-analysed under v.
   Invariant: what a run prints is what a cold run with the same value prints.
*)
EXTENDS Naturals, FiniteSets, TLC
CONSTANTS Options, InKey, PostApplied, Affects, MaxRuns
VARIABLES opt, keyVal, stored, out, cur, runs
vars == <<opt, keyVal, stored, out, cur, runs>>
Vals == {0, 1}
\* cold output of the witness of option o under value v: abstractly v itself when o affects it
Fresh(o, v) == IF o \in Affects THEN v ELSE 0
\* rendering at replay time
Replay(o, v, st) == IF o \in PostApplied THEN Fresh(o, v) ELSE st
Init == /\ opt \in Options /\ keyVal = 9 /\ stored = 9 /\ out = 9 /\ cur = 9 /\ runs = 0
Run(v) == /\ runs < MaxRuns /\ runs' = runs + 1 /\ cur' = v
          /\ LET hit == keyVal # 9 /\ (opt \in InKey => keyVal = v) IN
             IF hit THEN /\ out' = Replay(opt, v, stored) /\ UNCHANGED <<keyVal, stored>>
                    ELSE /\ out' = Fresh(opt, v) /\ stored' = Fresh(opt, v) /\ keyVal' = v
          /\ UNCHANGED opt
Next == \E v \in Vals : Run(v)
Spec == Init /\ [][Next]_vars
\* C09: the second run's output equals a cold run made with the second run's options
NoStale == runs > 0 => out = Fresh(opt, cur)
\* used to make TLC list EVERY stale option rather than stop at the first
StaleOptions == {o \in Options : o \in Affects /\ o \notin InKey /\ o \notin PostApplied}
==========================================================================
