----------------------------- MODULE TransDeps -----------------------------
(* Freshness through the import structure (mypy/build.py transitive_dep_hash, verify_transitive_deps,
   find_stale_sccs): a module that is not edited and whose direct dependencies kept their interface
   hashes is still re-checked when one of its INDIRECT dependencies (a module it refers to without
   importing it, reached through re-exports) is no longer reachable through direct imports.  Whether the
   import graph below a module changed is detected by comparing `trans_dep_hash`, a hash of the transitive
   import structure below the module's SCC; only when it differs are the indirect dependencies verified.

   Model: modules 1..N; run 1 on import graph G1 (every module refers to everything it can reach, so its
   indirect dependencies are Reach(G1, m) \ Direct(G1, m)); then ONE module `e` is edited: its imports
   change (G2) -- in particular it stops re-exporting what it no longer imports, which changes its
   interface.  Run 2 decides per SCC of G2 whether it is fresh.
   A hash is modelled by the structure it hashes (injective).

   Mutant switch FirstLevelOnly (FALSE in the code as it is): for SCCs with more than one module the hash
   covers only the names of the direct dependencies, not their own trans_dep_hash.
*)
EXTENDS Naturals, FiniteSets, TLC, Json
CONSTANTS N, FirstLevelOnly,
          Reexports   \* TRUE: every module re-exports what it imports (reach changes show in interfaces);
                      \* FALSE: interfaces do not depend on imports (e.g. `import pkg; pkg.mod.C`: the reference works because
                      \* somebody below imports pkg.mod) -- then only trans_dep_hash + verify_transitive_deps protect the module
Mods == 1..N
Edges == {e \in Mods \X Mods : e[1] # e[2]}
VARIABLES g1, g2, edited, phase
vars == <<g1, g2, edited, phase>>
Direct(g, m) == {d \in Mods : <<m, d>> \in g}
RECURSIVE ReachN(_, _, _)
ReachN(g, S, k) == IF k = 0 THEN S ELSE ReachN(g, S \cup UNION {Direct(g, m) : m \in S}, k - 1)
Reach(g, m) == ReachN(g, Direct(g, m), N)           \* everything importable from m (m itself only through a cycle)
SccOf(g, m) == {m} \cup {x \in Reach(g, m) : m \in Reach(g, x)}
\* the structure trans_dep_hash hashes for the SCC S: per direct dependency outside S its own structure (depth-bounded)
RECURSIVE Struct(_, _, _)
Struct(g, S, k) ==
   LET deps == UNION {Direct(g, m) : m \in S} IN
   IF k = 0 THEN <<deps, {}>>
   ELSE IF Cardinality(S) > 1 /\ FirstLevelOnly THEN <<deps \ S, {}>>
   ELSE <<deps, {<<d, Struct(g, SccOf(g, d), k - 1)>> : d \in deps \ S}>>
TransHash(g, m) == Struct(g, SccOf(g, m), N)
Indirect1(m) == Reach(g1, m) \ (Direct(g1, m) \cup {m})
\* the interface of a module: what it re-exports = what it can reach (changes for e and for whoever reaches differently)
Iface(g, m) == IF Reexports THEN Reach(g, m) ELSE {}

Init == /\ g1 \in SUBSET Edges /\ g2 = {} /\ edited = 0 /\ phase = "run1"
\* edit: module e gets a new set of imports
Edit == /\ phase = "run1"
        /\ \E e \in Mods : \E D \in SUBSET (Mods \ {e}) :
              /\ D # Direct(g1, e)
              /\ g2 = {} /\ edited' = e
              /\ g2' = {x \in g1 : x[1] # e} \cup {<<e, d>> : d \in D}
        /\ phase' = "run2" /\ UNCHANGED g1
Next == Edit
Spec == Init /\ [][Next]_vars

\* ---- run 2: which modules does find_stale_sccs treat as fresh?
\* inherently stale: the edited module (source changed); stale by deps: a direct dependency changed its interface
\* (evaluated bottom-up: a module whose dependency is re-checked sees that dependency's NEW interface hash)
SelfStale(m) == m = edited
\* the edited module's interface always changes (the names it imports are part of its symbol table)
IfaceChangedOf(d) == d = edited \/ Iface(g2, d) # Iface(g1, d)
DepIfaceChanged(m) == \E d \in Direct(g2, m) : IfaceChangedOf(d)
HashChanged(m) == TransHash(g2, m) # TransHash(g1, m)
IndirectLost(m) == \E k \in Indirect1(m) : k \notin Reach(g2, m)
SccStale(S) == \/ \E m \in S : SelfStale(m) \/ DepIfaceChanged(m)
               \/ \E m \in S : HashChanged(m) /\ IndirectLost(m)
TreatedFresh(m) == ~SccStale(SccOf(g2, m))
\* C02: a module treated as fresh really has nothing to re-check: everything it refers to indirectly is still there
FreshIsSound == phase = "run2" => \A m \in Mods : TreatedFresh(m) => ~IndirectLost(m)
\* the hash does its job: whenever an indirect dependency is lost, the structure below the module changed
HashCoversReach == phase = "run2" => \A m \in Mods : (m # edited /\ IndirectLost(m)) => (HashChanged(m) \/ DepIfaceChanged(m))
Emit == phase = "run2" => PrintT(<<"CASE", ToJson([g1 |-> g1, g2 |-> g2, e |-> edited,
                                                    fresh |-> {m \in Mods : TreatedFresh(m)}])>>)
============================================================================
