SPECIFICATION GenSpec
CONSTANTS
  Patterns <- PatsB
  ModSeq <- Mods39
  ValSeq <- Vals2
  Default = "d"
  MaxSections = 3
  FirstPats <- PatsB
  Letters <- L3
  SortWildcards = TRUE
  WildcardsFirst = TRUE
  LastGlobWins = TRUE
  LeadingStarZero = TRUE
INVARIANT Emit
