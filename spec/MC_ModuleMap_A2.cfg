SPECIFICATION Spec
CONSTANTS
  Universe <- UnivA
  MaxFiles = 2
  Names <- AllNames
  Configs <- AllConfigs
  ShadowRule = "asis"
INVARIANT TypeOK
INVARIANT RoundTrip
INVARIANT RoundTripFind
INVARIANT FindInvertsCrawl
INVARIANT OrderIndependence
INVARIANT DirVersusFilesModuloShadow
INVARIANT DirVersusPackageModuloShadow
