SPECIFICATION Spec
CONSTANTS
  Universe <- UnivA
  MaxFiles = 2
  Names <- AllNames
  Configs <- AllConfigs
  ShadowRule = "asis"
INVARIANT TypeOK
INVARIANT RoundTrip
INVARIANT RoundTripFind
INVARIANT FindInvertsCrawl
INVARIANT OrderIndependenceModuloShadow
INVARIANT DirVersusFilesModuloShadow
INVARIANT DirVersusPackageModuloShadow
