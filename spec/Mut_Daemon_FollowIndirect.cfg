SPECIFICATION Spec
CONSTANTS
  MaxEdits = 3
  MaxRequests = 4
  FollowIndirect = TRUE
  Follow = TRUE
VIEW mcview
INVARIANT RespondsLikeFresh
INVARIANT GraphIsBuild
