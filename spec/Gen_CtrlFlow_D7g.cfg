SPECIFICATION Spec
CONSTANTS
  MaxTok = 7
  MaxDepth = 3
  MaxHandlers = 2
  MaxSimple = 2
  Excs = {"V"}
  Pats = {"X"}
  Guards = {1}
  UseCraise = FALSE
  UseReraise = TRUE
  UseLoopElse = FALSE
  UseDef = TRUE
  LoopKinds = {}
  LoopN = 2
  FinJumps = "guarded"
  JumpThroughFinally = FALSE
  Stutter = TRUE
  FinallyOverrides = TRUE
INVARIANT HandledMirrorsStack
INVARIANT FinallyAlwaysRuns
INVARIANT JumpTargetsExist
INVARIANT StructuredFlow
INVARIANT ResultShape
INVARIANT Terminates
INVARIANT Completable
INVARIANT Emit
