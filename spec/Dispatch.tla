------------------------------ MODULE Dispatch ------------------------------
(* Method resolution on class hierarchies: which bodies run when a method is called on an instance,
   and which class supplies a property.  Reuses C12's C3.tla READ-ONLY (EXTENDS): `bases`, AddClass
   and Mro(b, c) are C3's; this module adds what is defined where.

   Every class i gets
     ms[i]   "none" | "plain" | "super":  does not define method m / defines it / defines it and
             calls super().m() (only generated when a proper ancestor of i defines m, which is
             what mypy demands of the program)
     ps[i]   TRUE: defines property p
   The rule (Python reference manual 3.3.2.2 / the `super` documentation; CPython
   Objects/typeobject.c _PyType_Lookup, super_getattro):
     o.m() on an instance of class c runs the body of the FIRST class of Mro(c) that defines m;
     super().m() inside the body defined by class d continues with the first class AFTER d in the
     linearisation OF THE INSTANCE'S CLASS c (not of d) that defines m.
   Chain(c) is the sequence of classes whose bodies run; PropOf(c) the class supplying p (0 = none).

   mypyc compiles such hierarchies with native classes and traits: a class has at most one
   non-trait base, which comes first; traits inherit from traits only.  Trait is the least set of
   classes this forces to be traits; every other class is an ordinary native class and can be
   instantiated.  (What is compiled and compared with CPython is built from this by the driver.)
*)
EXTENDS C3
CONSTANT UseProps        \* FALSE: no class defines the property (smaller space for deeper hierarchies)
VARIABLES ms, ps
dvars == <<bases, ms, ps>>

Modes == {"none", "plain", "super"}

\* classes forced to be traits: listed second or later in a base list, or a base of a trait
RECURSIVE TraitClosure(_, _)
TraitClosure(b, S) ==
  LET S2 == S \cup {x \in 1..Len(b) : \E d \in S : \E i \in 1..Len(b[d]) : b[d][i] = x}
  IN IF S2 = S THEN S ELSE TraitClosure(b, S2)
Trait(b) == TraitClosure(b, {x \in 1..Len(b) : \E d \in 1..Len(b) : \E i \in 2..Len(b[d]) : b[d][i] = x})
Concrete(b) == (1..Len(b)) \ Trait(b)

\* definers of m in linearisation order
Definers(m, lin) == SelectSeq(lin, LAMBDA c : m[c] # "none")
RECURSIVE ChainFrom(_, _)
ChainFrom(m, ds) == IF ds = <<>> THEN <<>>
                    ELSE IF m[Head(ds)] = "super" THEN <<Head(ds)>> \o ChainFrom(m, Tail(ds))
                    ELSE <<Head(ds)>>
Chain(b, m, c) == ChainFrom(m, Definers(m, Mro(b, c)))
PropOf(b, p, c) == LET ds == SelectSeq(Mro(b, c), LAMBDA k : p[k]) IN IF ds = <<>> THEN 0 ELSE Head(ds)

DInit == Init /\ ms = <<>> /\ ps = <<>>
\* one class at a time: C3's AddClass chooses the base list, then the definitions of the new class
AddClassD ==
  /\ AddClass
  /\ LET c == Len(bases')
         lin == Mro(bases', c)
     IN /\ lin # Fail
        /\ \E mode \in Modes, pflag \in (IF UseProps THEN BOOLEAN ELSE {FALSE}) :
             /\ (mode = "super" => \E i \in 2..Len(lin) : ms[lin[i]] # "none")
             /\ ms' = Append(ms, mode)
             /\ ps' = Append(ps, pflag)
DNext == AddClassD
DSpec == DInit /\ [][DNext]_dvars

\* ------------------------------------------------------------------ properties of the rule
\* the chain is a subsequence of the linearisation, starts at the most specific definer, and every
\* body but the last one calls super()
ChainWellFormed ==
  \A c \in 1..Len(bases) :
     LET ch == Chain(bases, ms, c)
         lin == Mro(bases, c)
     IN /\ IsSubseq(ch, lin)
        /\ (ch # <<>> => \A i \in 1..(Pos(lin, ch[1]) - 1) : ms[lin[i]] = "none")
        /\ \A i \in 1..Len(ch) : (i < Len(ch) => ms[ch[i]] = "super")
        /\ (ch # <<>> => ms[ch[Len(ch)]] = "plain")       \* a super() call always finds a target
\* a subclass that defines nothing behaves like its linearisation says its first base does -- only for
\* single inheritance; with several bases the chain of a base may be INTERLEAVED with other bases':
\* this is the cooperative-super case, reachable (checked as a non-invariant by Mut_Dispatch_StaticSuper)
SuperIsStatic ==
  \A c \in 1..Len(bases) :
     LET ch == Chain(bases, ms, c)
     IN \A i \in 1..(Len(ch) - 1) :
          \* the next body is the one the DEFINING class's own linearisation would select
          LET own == Definers(ms, Mro(bases, ch[i])) IN Len(own) >= 2 /\ ch[i + 1] = own[2]
TraitsWellFormed ==
  LET T == Trait(bases) IN
  \A c \in 1..Len(bases) :
     /\ (c \in T => \A i \in 1..Len(bases[c]) : bases[c][i] \in T)
     /\ \A i \in 2..Len(bases[c]) : bases[c][i] \in T

\* ------------------------------------------------------------------ emission
EmitD == Len(bases) > 0 =>
           PrintT(<<"D", ToJson([b |-> bases, ms |-> ms, ps |-> ps,
                                 tr |-> [c \in 1..Len(bases) |-> c \in Trait(bases)],
                                 lin |-> [c \in 1..Len(bases) |-> Mro(bases, c)],
                                 ch |-> [c \in 1..Len(bases) |-> Chain(bases, ms, c)],
                                 pr |-> [c \in 1..Len(bases) |-> PropOf(bases, ps, c)]])>>)
=============================================================================
