SPECIFICATION Spec
CONSTANT Types <- PlainTypes
CONSTANT MaxUnion = 1
CONSTANT UnionTypes <- NoTypes
CONSTANT ItemKinds <- AllItems
CONSTANT MaxItems = 3
CONSTANT MaxCases = 1
CONSTANT MaxLen = 4
CONSTANT DoEmit = TRUE
CONSTANT ExcludeHole = TRUE
CONSTANT Mutant = "none"
INVARIANT ReachSound
INVARIANT CaptureSound
INVARIANT FixedExact
INVARIANT Emit
