SPECIFICATION Spec
CONSTANTS
  MaxRuns = 3
  MaxEdits = 2
  MaxTouch = 1
  Sqlite = FALSE
  WithCrash = FALSE
  MaxFail = 0
  RemoveExFirst = TRUE
  FreshOldHash = TRUE
  DropMetaOnFail = TRUE
  UseIndirect = TRUE
  WithAbsent = TRUE
  CheckDepList = TRUE
VIEW mcview
INVARIANT OutEqualsCold
INVARIANT FreshIsRight
INVARIANT FsNoPending
INVARIANT TypeOK
PROPERTY StoreQuietWhenIdle
