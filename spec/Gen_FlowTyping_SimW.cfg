SPECIFICATION Spec
CONSTANT Classes <- G_Classes
CONSTANT Vars <- F_Vars
CONSTANT ParamTypes <- W_Types
CONSTANT LocalTypes <- W_Types
CONSTANT RetTypes <- S1_Ret
CONSTANT HelperTypes <- W_Helper
CONSTANT CondKinds <- AllConds
CONSTANT LoopCondKinds <- AllConds
CONSTANT StmtKinds <- AllKindsM
CONSTANT MaxStmts = 7
CONSTANT MaxDepth = 3
CONSTANT DoRun = TRUE
CONSTANT DoEmit = TRUE
CONSTANT Mutant = "none"
CONSTANT FlagAwareJoin = TRUE
CONSTANT AsgToks <- AllAsg
CONSTANT IfVars <- F_Vars
CONSTANT LoopVars <- F_Vars
CONSTANT HeaderExprs <- AllHeaderExprs
INVARIANT MemberOK
INVARIANT RevealOK
INVARIANT ReachOK
INVARIANT NoWrong
INVARIANT BinderShape
INVARIANT Balanced
INVARIANT Emit
