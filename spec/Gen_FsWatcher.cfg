SPECIFICATION Spec
CONSTANTS
  Paths <- PathsDef
  Contents <- ContentsDef
  CoarseClock = FALSE
  MaxEnv = 4
  MaxOps = 4
INVARIANT Emit
