SPECIFICATION GenSpec
CONSTANTS
  Patterns <- PatsA
  ModSeq <- Mods39
  ValSeq <- Vals2
  Default = "d"
  MaxSections = 4
  FirstPats <- First4
  Letters <- L3
  SortWildcards = TRUE
  WildcardsFirst = TRUE
  LastGlobWins = TRUE
  LeadingStarZero = TRUE
  Umbrella = FALSE
  UVal = "p"
  UmbrellaAfterConfig = TRUE
INVARIANT Emit
