SPECIFICATION DSpec
CONSTANTS
  N = 4
  UseBaseList = TRUE
  UseProps = TRUE
INVARIANT ChainWellFormed
INVARIANT TraitsWellFormed
INVARIANT WellFormed
INVARIANT Monotone
