---------------------------- MODULE ValidateMeta ----------------------------
(* The validity decision for one cached module (mypy/build.py find_cache_meta + validate_meta + the
   freshness part of find_stale_sccs that only concerns the module itself), as a decision table over the
   ways in which the world can differ from the moment the cache entry was written:

     touched      the source has a new mtime, same content
     edited_same  the source has new content of the SAME size (and a new mtime)
     edited_size  the source has new content of a different size
     moved        the source file is at another path (same module id, same content, same mtime)
     data_swapped the data record was rewritten by somebody else (its mtime differs from meta.data_mtime)
     data_gone    the data record is missing          meta_gone / ex_gone: the meta / meta_ex record is missing
     meta_garbage the meta record does not decode
     key_option   an option that is part of the cache key differs
     src_gone     the source file is missing (the module is then not in the build at all)

   Decision: "fresh" (entry trusted), "stale" (module re-analysed); side effect "rewrite" = the meta record is
   rewritten while loading (mtime-refresh path).  TLC enumerates every subset of at most two conditions and
   emits the expected decision; the harness creates exactly that situation around a real cache entry and
   observes the real decision (find_stale_sccs verdict and store writes during loading).
*)
EXTENDS Naturals, FiniteSets, TLC, Json
Conds == {"touched", "edited_same", "edited_size", "moved", "data_swapped", "data_gone", "meta_gone", "ex_gone",
          "meta_garbage", "key_option"}
VARIABLES cs, done
vars == <<cs, done>>
Compatible(S) == /\ Cardinality(S \cap {"touched", "edited_same", "edited_size"}) <= 1
                 /\ Cardinality(S \cap {"data_swapped", "data_gone"}) <= 1
                 /\ Cardinality(S \cap {"meta_gone", "meta_garbage"}) <= 1
Init == cs \in {S \in SUBSET Conds : Cardinality(S) <= 2 /\ Compatible(S)} /\ done = FALSE
Next == ~done /\ done' = TRUE /\ UNCHANGED cs
Spec == Init /\ [][Next]_vars
\* find_cache_meta: meta and meta_ex must be there and decode, options key must agree
Decodable(S) == S \cap {"meta_gone", "meta_garbage", "ex_gone", "key_option"} = {}
\* validate_meta: data record is the one the meta describes; size equal; (mtime and path equal) or hash equal and not moved
DataOK(S) == S \cap {"data_swapped", "data_gone"} = {}
SourceOK(S) == S \cap {"edited_same", "edited_size", "moved"} = {}
Fresh(S) == Decodable(S) /\ DataOK(S) /\ SourceOK(S)
\* the mtime-refresh rewrite happens only on the hash-equal path of an otherwise valid entry
Rewrite(S) == Fresh(S) /\ "touched" \in S
Decision(S) == [fresh |-> Fresh(S), rewrite |-> Rewrite(S)]
\* sanity: a rewrite only ever happens for an entry that is then trusted
RewriteOnlyWhenFresh == \A S \in SUBSET Conds : Rewrite(S) => Fresh(S)
Emit == done => PrintT(<<"CASE", ToJson([conds |-> cs, fresh |-> Fresh(cs), rewrite |-> Rewrite(cs)])>>)
==============================================================================
