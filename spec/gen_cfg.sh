#!/bin/sh
# usage: gen_cfg.sh name sqlite crash maxfail rmex fresholdhash skiponfail useind runs edits touch [emit|check] [withabsent] [checkdeplist]
cat > $1 <<EOT
SPECIFICATION Spec
CONSTANTS
  MaxRuns = $9
  MaxEdits = ${10}
  MaxTouch = ${11}
  Sqlite = $2
  WithCrash = $3
  MaxFail = $4
  RemoveExFirst = $5
  FreshOldHash = $6
  DropMetaOnFail = $7
  UseIndirect = $8
  WithAbsent = ${13:-FALSE}
  CheckDepList = ${14:-TRUE}
EOT
if [ "${12}" = emit ]; then
cat >> $1 <<EOT
INVARIANT Emit
EOT
else
cat >> $1 <<EOT
VIEW mcview
INVARIANT OutEqualsCold
INVARIANT FreshIsRight
INVARIANT FsNoPending
INVARIANT TypeOK
PROPERTY StoreQuietWhenIdle
EOT
fi
