SPECIFICATION Spec
CONSTANTS
  MaxN = 3
  Kinds = {"dkeys", "dvalues", "ditems", "set", "list", "rev", "enum", "zip", "tuple", "str", "range"}
  GrowthDetected = FALSE
INVARIANT Terminates
INVARIANT NoMutationVisitsAll
INVARIANT ListsNeverFail
INVARIANT VisitedOnce
INVARIANT BreakSkipsElse
INVARIANT Emit
