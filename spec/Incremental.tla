--------------------------- MODULE Incremental ---------------------------
(* One sequential incremental mypy build over a chain of modules a -> b -> c, with the
   cache protocol of mypy/build.py modelled operation by operation (DESIGN App. B):

     Load(m)      State.new_state: find_cache_meta + validate_meta (incl. the
                  mtime-differs/hash-equal path that REWRITES the meta: a store write while loading)
     ProcFresh(m) find_stale_sccs says fresh: cached error_lines replayed; the tree other
                  modules see comes from the DATA record, the interface hash from the META record
     ProcStale(m) process_stale_scc: analysis against the views of the dependencies
     WData(m)     write_cache: data record, SKIPPED when the interface hash equals the hash
                  taken from whatever meta find_cache_meta could decode (even one that
                  validate_meta then rejected)
     CommitData   manager.commit_module after write_cache
     GetMtime     data_mtime = getmtime(data_file), read back into the meta
     RmEx(m)      remove the old meta_ex before the new meta (present iff RemoveExFirst)
     WMeta(m)     write_cache_meta     WEx(m) write_cache_meta_ex     CommitMeta
     Finish       build_inner's finally: manager.commit()
   Environment:  Edit (content + mtime), Touch (mtime only), Crash (process death: run-local
   state and, for the sqlite store, uncommitted writes vanish), and any store write may
   return False (MaxFail of them).

   Module contents (aligned with catalogue M of harness/world.py):
     c = [iface \in 0..1, err \in 0..1]   f() -> int | str ; an error inside c's own body
     b \in {"reexport","infer","internal"}  from c import f as f | f = c.f | def f()->int: return c.f()
     a \in {"use","nouse"}                v: int = b.f()   |  (nothing)
   A module's exported content is abstract but INJECTIVE (a hash equals the content it hashes).

   WithAbsent: c may be DELETED and re-created (content Absent).  b then has no dependency c but a
   SUPPRESSED one; the meta record lists both.  load_graph's two checks are modelled in Load:
   a dependency listed in the meta that cannot be found any more (State.is_fresh: dependency list
   changed) and a suppressed dependency that can now be found (exist_added_packages) make the
   entry unusable.  The records of the deleted module stay in the store and are judged again when
   the module comes back.
*)
EXTENDS Naturals, Sequences, FiniteSets, TLC, Json
CONSTANTS MaxRuns, MaxEdits, MaxTouch,
          Sqlite,          \* TRUE: writes are pending until Commit*; FALSE: every write is durable at once
          WithCrash, MaxFail,
          RemoveExFirst,   \* code behaviour: stale meta_ex removed before the new meta is written
          FreshOldHash,    \* code behaviour: the "old interface hash" that lets WData be skipped is only
                           \* trusted when the data record is the one the decoded meta describes
          DropMetaOnFail,  \* code behaviour: a failed meta write removes the old meta (so it cannot pair with the new meta_ex)
          UseIndirect,     \* code behaviour: indirect dependency hashes take part in freshness (FALSE = mutant)
          WithAbsent,      \* the environment may delete / re-create module c
          CheckDepList     \* code behaviour: an entry whose dependency / suppressed lists no longer match what can be found is unusable (FALSE = mutant)

Order == <<"c", "b", "a">>          \* processing order (dependencies first)
LoadOrder == <<"a", "b", "c">>      \* load_graph: BFS from the source
ModSet == {"a", "b", "c"}
Absent == [iface |-> 9, err |-> 0]
BKinds == {"reexport", "infer", "internal"}
None == [k |-> "none"]
NoHash == 99

VARIABLES fs,        \* [c, b, a, tick : [ModSet -> Nat]]
          durable,   \* [ModSet -> [data, meta, ex]] what survives a process death
          pend,      \* [ModSet -> [data, meta, ex]] uncommitted writes of the running process ("keep" = none)
          clock, pc, runs, edits, touches, fails,
          valid, oldHash, dmt,     \* run-local: validate_meta verdict, old interface hash, data_mtime read back
          view,      \* run-local: [ModSet -> None | [hash, content]]
          reported, stale,
          h          \* history (environment-level events; hidden by VIEW in MC configs)
vars == <<fs, durable, pend, clock, pc, runs, edits, touches, fails, valid, oldHash, dmt, view, reported, stale, h>>
mcview == <<fs, durable, pend, clock, pc, runs, edits, touches, fails, valid, oldHash, dmt, view, reported, stale>>

Content(m) == IF m = "c" THEN fs.c ELSE IF m = "b" THEN fs.b ELSE fs.a
CPresent == fs.c # Absent
Present(m) == m # "c" \/ CPresent
\* what parsing + module search give NOW: dependencies that are found, and those that are not (suppressed)
DirectDeps(m) == IF m = "a" THEN {"b"} ELSE IF m = "b" /\ CPresent THEN {"c"} ELSE {}
Suppressed(m) == IF m = "b" /\ ~CPresent THEN {"c"} ELSE {}

\* ------------------------------------------------------------------ from-scratch semantics
CContent(f) == f.c.iface
\* with c missing, b.f is Any (re-export: 20, inferred: 21), b reports the failed import, a has nothing to complain about
BContent(f) == IF f.c = Absent THEN (IF f.b = "infer" THEN 21 ELSE IF f.b = "reexport" THEN 20 ELSE 22)   \* the name c itself is part of b's interface
               ELSE IF f.b = "infer" THEN 10 + f.c.iface ELSE IF f.b = "reexport" THEN 5 ELSE 7
ResolveThrough(bc, cc) == IF bc = 5 THEN cc ELSE IF bc >= 10 /\ bc < 20 THEN bc - 10 ELSE 0
Diag(f) == (IF f.c # Absent /\ f.c.err = 1 THEN {"c"} ELSE {})
      \cup (IF f.c = Absent \/ (f.b = "internal" /\ f.c.iface = 1) THEN {"b"} ELSE {})
      \cup (IF f.a = "use" /\ f.c # Absent /\ ResolveThrough(BContent(f), CContent(f)) = 1 THEN {"a"} ELSE {})

\* ------------------------------------------------------------------ store
Keep == [k |-> "keep"]
NoPend == [m \in ModSet |-> [data |-> Keep, meta |-> Keep, ex |-> Keep]]
EmptyStore == [m \in ModSet |-> [data |-> None, meta |-> None, ex |-> None]]
\* what the running process reads: its own uncommitted writes shadow the durable records
Vis(m) == [data |-> IF pend[m].data = Keep THEN durable[m].data ELSE pend[m].data,
           meta |-> IF pend[m].meta = Keep THEN durable[m].meta ELSE pend[m].meta,
           ex   |-> IF pend[m].ex   = Keep THEN durable[m].ex   ELSE pend[m].ex]
Put(m, field, rec) ==
   IF Sqlite THEN /\ pend' = [pend EXCEPT ![m][field] = rec] /\ UNCHANGED durable
             ELSE /\ durable' = [durable EXCEPT ![m][field] = rec] /\ UNCHANGED pend
CommitShard(m) ==   \* data/meta/meta_ex of one module live in one shard
   /\ durable' = [durable EXCEPT ![m] = Vis(m)]
   /\ pend' = [pend EXCEPT ![m] = [data |-> Keep, meta |-> Keep, ex |-> Keep]]
CommitAll == /\ durable' = [m \in ModSet |-> Vis(m)] /\ pend' = NoPend

Init == /\ fs = [c |-> [iface |-> 0, err |-> 0], b |-> "reexport", a |-> "use", tick |-> [m \in ModSet |-> 1]]
        /\ durable = EmptyStore /\ pend = NoPend /\ clock = 2 /\ pc = <<"idle">>
        /\ runs = 0 /\ edits = 0 /\ touches = 0 /\ fails = 0
        /\ valid = [m \in ModSet |-> FALSE] /\ oldHash = [m \in ModSet |-> NoHash] /\ dmt = 0
        /\ view = [m \in ModSet |-> None] /\ reported = {} /\ stale = {} /\ h = <<>>

RunLocalUnchanged == UNCHANGED <<valid, oldHash, dmt, view, stale>>
\* ------------------------------------------------------------------ environment
EditTo(m, v) == /\ pc = <<"idle">> /\ edits < MaxEdits /\ v # Content(m)
                /\ fs' = [fs EXCEPT ![m] = v, !.tick[m] = clock]
                /\ clock' = clock + 1 /\ edits' = edits + 1 /\ reported' = {}
                /\ h' = Append(h, [ev |-> "edit", mod |-> m, v |-> ToJson(v)])
                /\ UNCHANGED <<durable, pend, pc, runs, touches, fails>> /\ RunLocalUnchanged
Edit == \/ \E i \in 0..1, e \in 0..1 : EditTo("c", [iface |-> i, err |-> e])
        \/ WithAbsent /\ EditTo("c", Absent)
        \/ \E k \in BKinds : EditTo("b", k)
        \/ \E u \in {"use", "nouse"} : EditTo("a", u)
Touch == /\ pc = <<"idle">> /\ touches < MaxTouch
         /\ \E m \in ModSet : /\ Present(m) /\ fs' = [fs EXCEPT !.tick[m] = clock]
                              /\ h' = Append(h, [ev |-> "touch", mod |-> m, v |-> ""])
         /\ clock' = clock + 1 /\ touches' = touches + 1 /\ reported' = {}
         /\ UNCHANGED <<durable, pend, pc, runs, edits, fails>> /\ RunLocalUnchanged
StartRun == /\ pc = <<"idle">> /\ runs < MaxRuns /\ runs' = runs + 1
            /\ pc' = <<"load", 1>> /\ reported' = {} /\ stale' = {}
            /\ view' = [m \in ModSet |-> None] /\ valid' = [m \in ModSet |-> FALSE]
            /\ oldHash' = [m \in ModSet |-> NoHash] /\ dmt' = 0
            /\ h' = Append(h, [ev |-> "run", mod |-> "", v |-> ""])
            /\ UNCHANGED <<fs, durable, pend, clock, edits, touches, fails>>

\* a write that returns False (os.replace failed / sqlite OperationalError): nothing is written
MayFail == fails < MaxFail
\* ------------------------------------------------------------------ loading: find_cache_meta + validate_meta
Decodable(r) == r.meta.k = "meta" /\ r.ex.k = "ex"          \* find_cache_meta needs meta AND meta_ex
DataMatches(r) == r.data.k = "data" /\ r.data.tick = r.meta.dataTick    \* getmtime(data_file) = meta.data_mtime
Load == /\ pc[1] = "load"
        /\ LET m == LoadOrder[pc[2]]
               r == Vis(m)
               dec == Decodable(r)
               srcSame == dec /\ r.meta.src = Content(m)
               \* load_graph: a listed dependency that is gone / a suppressed one that can now be found
               listsOK == dec /\ (CheckDepList => (r.meta.deps = DirectDeps(m) /\ r.meta.supp = Suppressed(m)))
               ok == Present(m) /\ dec /\ DataMatches(r) /\ srcSame /\ listsOK
               needRewrite == Present(m) /\ dec /\ DataMatches(r) /\ srcSame /\ r.meta.srcTick # fs.tick[m]   \* mtime differs, hash equal
               nextpc == IF pc[2] = 3 THEN <<"mod", 1>> ELSE <<"load", pc[2] + 1>>
           IN /\ valid' = [valid EXCEPT ![m] = ok]
              /\ oldHash' = [oldHash EXCEPT ![m] = IF Present(m) /\ dec /\ (FreshOldHash => DataMatches(r)) THEN r.meta.iface ELSE NoHash]
              /\ IF needRewrite /\ srcSame /\ DataMatches(r) /\ Present(m)
                 THEN \/ /\ Put(m, "meta", [r.meta EXCEPT !.srcTick = fs.tick[m]]) /\ UNCHANGED fails
                      \/ /\ MayFail /\ fails' = fails + 1 /\ UNCHANGED <<durable, pend>>
                 ELSE UNCHANGED <<durable, pend, fails>>
              /\ pc' = nextpc
        /\ UNCHANGED <<fs, clock, runs, edits, touches, dmt, view, reported, stale, h>>

\* ------------------------------------------------------------------ freshness (find_stale_sccs)
Cur == Order[pc[2]]
Fresh(m) == /\ valid[m]
            /\ \A d \in DOMAIN Vis(m).meta.depHash : view[d] # None /\ Vis(m).meta.depHash[d] = view[d].hash
            /\ (UseIndirect => \A d \in DOMAIN Vis(m).ex.indHash : view[d] # None /\ Vis(m).ex.indHash[d] = view[d].hash)
NextMod == IF pc[2] = 3 THEN <<"done">> ELSE <<"mod", pc[2] + 1>>
\* a module that does not exist is not part of the build
ProcAbsent == /\ pc[1] = "mod" /\ ~Present(Cur) /\ pc' = NextMod
              /\ UNCHANGED <<fs, durable, pend, clock, runs, edits, touches, fails, valid, oldHash, dmt, view, reported, stale, h>>
ProcFresh == /\ pc[1] = "mod" /\ Present(Cur) /\ Fresh(Cur)
             /\ reported' = reported \cup (IF Vis(Cur).ex.err THEN {Cur} ELSE {})
             /\ view' = [view EXCEPT ![Cur] = [hash |-> Vis(Cur).meta.iface, content |-> Vis(Cur).data.content]]
             /\ pc' = NextMod
             /\ UNCHANGED <<fs, durable, pend, clock, runs, edits, touches, fails, valid, oldHash, dmt, stale, h>>
\* ------------------------------------------------------------------ analysis against the views
CSeen == view["c"] # None      \* c is part of this build
AnalyseContent(m) == IF m = "c" THEN fs.c.iface
                     ELSE IF m = "b" THEN (IF ~CSeen THEN (IF fs.b = "infer" THEN 21 ELSE IF fs.b = "reexport" THEN 20 ELSE 22)
                                           ELSE IF fs.b = "infer" THEN 10 + view["c"].content ELSE IF fs.b = "reexport" THEN 5 ELSE 7)
                     ELSE 9
AnalyseErr(m) == IF m = "c" THEN fs.c.err = 1
                 ELSE IF m = "b" THEN ~CSeen \/ (fs.b = "internal" /\ view["c"].content = 1)
                 ELSE fs.a = "use" /\ CSeen /\ ResolveThrough(view["b"].content, view["c"].content) = 1
IndirectDeps(m) == IF m = "a" /\ fs.a = "use" /\ view["b"].content = 5 /\ CSeen THEN {"c"} ELSE {}
ProcStale == /\ pc[1] = "mod" /\ Present(Cur) /\ ~Fresh(Cur)
             /\ view' = [view EXCEPT ![Cur] = [hash |-> AnalyseContent(Cur), content |-> AnalyseContent(Cur)]]
             /\ reported' = reported \cup (IF AnalyseErr(Cur) THEN {Cur} ELSE {})
             /\ stale' = stale \cup {Cur}
             /\ pc' = <<"wdata", pc[2]>>
             /\ UNCHANGED <<fs, durable, pend, clock, runs, edits, touches, fails, valid, oldHash, dmt, h>>
\* ------------------------------------------------------------------ the write protocol of process_stale_scc
WData == /\ pc[1] = "wdata"
         /\ IF oldHash[Cur] = view[Cur].hash
            THEN /\ pc' = <<"gmt", pc[2]>> /\ UNCHANGED <<durable, pend, clock, fails>>          \* "Interface ... is unchanged"
            ELSE \/ /\ Put(Cur, "data", [k |-> "data", content |-> view[Cur].content, tick |-> clock])
                    /\ clock' = clock + 1 /\ pc' = <<"gmt", pc[2]>> /\ UNCHANGED fails
                 \/ /\ MayFail /\ fails' = fails + 1 /\ pc' = NextMod                           \* no meta, no meta_ex
                    /\ UNCHANGED <<durable, pend, clock>>
         /\ UNCHANGED <<fs, runs, edits, touches, valid, oldHash, dmt, view, reported, stale, h>>
GetMtime == /\ pc[1] = "gmt"
            /\ IF Vis(Cur).data.k = "data"
               THEN dmt' = Vis(Cur).data.tick /\ pc' = <<"cdata", pc[2]>>
               ELSE dmt' = 0 /\ pc' = NextMod                                                    \* OSError: skip cache write
            /\ UNCHANGED <<fs, durable, pend, clock, runs, edits, touches, fails, valid, oldHash, view, reported, stale, h>>
CommitData == /\ pc[1] = "cdata" /\ CommitShard(Cur)
              /\ pc' = <<IF RemoveExFirst THEN "rmex" ELSE "wmeta", pc[2]>>
              /\ UNCHANGED <<fs, clock, runs, edits, touches, fails, valid, oldHash, dmt, view, reported, stale, h>>
RmEx == /\ pc[1] = "rmex" /\ Put(Cur, "ex", None) /\ pc' = <<"wmeta", pc[2]>>
        /\ UNCHANGED <<fs, clock, runs, edits, touches, fails, valid, oldHash, dmt, view, reported, stale, h>>
NewMeta == [k |-> "meta", src |-> Content(Cur), srcTick |-> fs.tick[Cur], dataTick |-> dmt,
            iface |-> view[Cur].hash, depHash |-> [d \in DirectDeps(Cur) |-> view[d].hash],
            deps |-> DirectDeps(Cur), supp |-> Suppressed(Cur)]
WMeta == /\ pc[1] = "wmeta"
         /\ \/ Put(Cur, "meta", NewMeta) /\ UNCHANGED fails
            \/ /\ MayFail /\ fails' = fails + 1                                  \* write returned False: logged, the run goes on
               /\ IF DropMetaOnFail THEN Put(Cur, "meta", None) ELSE UNCHANGED <<durable, pend>>
         /\ pc' = <<"wex", pc[2]>>
         /\ UNCHANGED <<fs, clock, runs, edits, touches, valid, oldHash, dmt, view, reported, stale, h>>
NewEx == [k |-> "ex", err |-> Cur \in reported, indHash |-> [d \in IndirectDeps(Cur) |-> view[d].hash]]
WEx == /\ pc[1] = "wex"
       /\ \/ Put(Cur, "ex", NewEx) /\ UNCHANGED fails
          \/ MayFail /\ fails' = fails + 1 /\ UNCHANGED <<durable, pend>>
       /\ pc' = <<"cmeta", pc[2]>>
       /\ UNCHANGED <<fs, clock, runs, edits, touches, valid, oldHash, dmt, view, reported, stale, h>>
CommitMeta == /\ pc[1] = "cmeta" /\ CommitShard(Cur) /\ pc' = NextMod
              /\ UNCHANGED <<fs, clock, runs, edits, touches, fails, valid, oldHash, dmt, view, reported, stale, h>>
Finish == /\ pc = <<"done">> /\ CommitAll /\ pc' = <<"idle">>
          /\ h' = Append(h, [ev |-> "result", mod |-> "", v |-> ToJson([reported |-> reported, stale |-> stale])])
          /\ UNCHANGED <<fs, clock, runs, edits, touches, fails, reported>> /\ RunLocalUnchanged
Crash == /\ WithCrash /\ pc \notin {<<"idle">>, <<"done">>}
         /\ pc' = <<"idle">> /\ pend' = NoPend /\ reported' = {}
         /\ h' = Append(h, [ev |-> "crash", mod |-> "", v |-> ""])
         /\ UNCHANGED <<fs, durable, clock, runs, edits, touches, fails>> /\ RunLocalUnchanged

Next == Edit \/ Touch \/ StartRun \/ Load \/ ProcAbsent \/ ProcFresh \/ ProcStale \/ WData \/ GetMtime \/ CommitData
        \/ RmEx \/ WMeta \/ WEx \/ CommitMeta \/ Finish \/ Crash
Spec == Init /\ [][Next]_vars

\* ------------------------------------------------------------------ properties
Done == pc = <<"done">>
\* C02 / C04: whatever happened before (edits, touches, killed runs, failed writes), a run that
\* completes reports exactly what a from-scratch check of the current files reports
OutEqualsCold == Done => reported = Diag(fs)
\* a module is only trusted (treated as fresh) when its three records describe the current files
FreshIsRight ==
   (pc[1] = "mod" /\ Fresh(Cur)) =>
       LET r == Vis(Cur)
           trueContent == IF Cur = "c" THEN CContent(fs) ELSE IF Cur = "b" THEN BContent(fs) ELSE 9
       IN /\ r.meta.iface = trueContent /\ r.data.content = trueContent
          /\ r.ex.err = (Cur \in Diag(fs))
\* the store only changes by the listed write actions, and never outside a run
StoreQuietWhenIdle == [][pc = <<"idle">> /\ pc' = <<"idle">> => UNCHANGED <<durable, pend>>]_vars
\* the FS store never has pending writes
FsNoPending == ~Sqlite => pend = NoPend
TypeOK == /\ pc[1] \in {"idle", "load", "mod", "wdata", "gmt", "cdata", "rmex", "wmeta", "wex", "cmeta", "done"}
          /\ fails <= MaxFail

\* ------------------------------------------------------------------ emission (Gen configs)
Complete == pc = <<"idle">> /\ runs = MaxRuns
Emit == Complete => PrintT(<<"HIST", ToJson(h)>>)
===========================================================================
